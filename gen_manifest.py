#!/usr/bin/env python3
"""Writes MANIFEST.json from checks.py (kept valid at all times)."""
import json
import os
import sys

VERIF = os.path.dirname(os.path.abspath(__file__))
sys.path.insert(0, VERIF)
from checks import CHECKS, NOT_APPLICABLE  # noqa: E402

m = {
    "version": 1,
    "setup_cmd": "python3 /verif/setup.py",
    "hooks": {
        "guard": "ERICSSON_XCM_VERIF",
        "enable": ("checks compile the library sources of /repo's working tree themselves "
                   "(build.py) with -DERICSSON_XCM_VERIF=1; no hook code exists in /repo, all "
                   "observation happens at the libc / c-ares / OpenSSL boundary by link-time "
                   "interposition in the harness executables"),
        "baseline_off_cmd": "/verif/tools/run_suite.sh",
        "source_commits": [],
        "add_only": True,
    },
    "engines": [
        {"name": "vf", "path": "lib/vf_main.cc",
         "serves_properties": sorted(CHECKS.keys()),
         "kind_free_text": "rapidcheck-driven plan generator/shrinker + replay + statistics; "
                           "plans are decoded by per-property harnesses in props/ and executed "
                           "against the real library built with ASan/UBSan (TSan for C15)"},
    ],
    "checks": [],
    "not_applicable": NOT_APPLICABLE,
    "notes": "See DESIGN.md. known_findings.json lists recorded findings and fixed defects.",
}
have = set(CHECKS) | {n["property_id"] for n in NOT_APPLICABLE}
for line in open(os.path.join(VERIF, "properties.jsonl")):
    pid = json.loads(line)["id"]
    if pid not in have:
        m["not_applicable"].append({
            "property_id": pid,
            "reason": "not claimed in this revision: its check (designed in DESIGN.md section 4) "
                      "is not built yet"})
for pid in sorted(CHECKS):
    c = CHECKS[pid]
    m["checks"].append({
        "property_id": pid,
        "quick_cmd": "./check %s --tier quick" % pid,
        "thorough_cmd": "./check %s --tier thorough" % pid,
        "evidence_file": "/verif/evidence/%s.json" % pid,
        "replay_cmd_template": "./check %s --replay {path}" % pid,
        "engine": "vf",
        "level_claimed": {"category": c["level"], "text": c["level_text"] + (" " + c["level_text_extra"] if c.get("level_text_extra") else ""),
                          "design_ref": "DESIGN.md section 4, " + pid},
        "level_note": c["level_note"],
        "technique": c["technique"] + (
            "; thorough tier adds a coverage-guided stage: libFuzzer (-fsanitize=fuzzer,address,undefined, library "
            "built with fuzzer-no-link) mutating the same plan tape against the same oracle, %d processes x %d s, "
            "starting corpus = the committed replays" % (c["thorough"]["fuzz"].get("workers", 8),
                                                          c["thorough"]["fuzz"].get("seconds", 120))
            if c["thorough"].get("fuzz") else ""),
    })
json.dump(m, open(os.path.join(VERIF, "MANIFEST.json"), "w"), indent=1)
print("MANIFEST.json written with", len(m["checks"]), "checks")
