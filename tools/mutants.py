"""Hand-written sensitivity mutants (DESIGN.md 2.10), one small semantic change
each; applied to a scratch worktree only."""

MUTANTS = []


def M(name, props, file, old, new, count=1):
    MUTANTS.append(dict(name=name, props=props, file=file, old=old, new=new, count=count))


TCP = "libxcm/tp/tcp/xcm_tp_tcp.c"
TLS = "libxcm/tp/tls/xcm_tp_tls.c"
BTCP = "libxcm/tp/tcp/xcm_tp_btcp.c"
BTLS = "libxcm/tp/tls/xcm_tp_btls.c"
UX = "libxcm/tp/ux/xcm_tp_ux.c"
XCM = "libxcm/core/xcm.c"
ADDR = "libxcm/core/xcm_addr.c"

# ---- C12
M("addr-make-eq-capacity", ["C12"], ADDR,
  "if (rc < 0 || (size_t)rc >= capacity) {", "if (rc == capacity) {", count=3)
M("addr-port-65536", ["C12"], ADDR, "lport > 65535", "lport > 65536")
M("addr-strchr-port", ["C12"], ADDR, "strrchr(paddr, PORT_SEP)", "strchr(paddr, PORT_SEP)")
M("addr-ux-name-limit", ["C12"], ADDR,
  "strcmp(proto, ux_proto) != 0 || strlen(name) > UX_NAME_MAX ||", "strcmp(proto, ux_proto) != 0 ||")
M("addr-proto-capacity", ["C12"], ADDR, "if (proto_len >= proto_capacity)", "if (proto_len > proto_capacity)")
M("addr-ip6-no-brackets-end", ["C12"], ADDR,
  "host_s[strlen(host_s)-1] != IP6_END)", "0)")

# ---- C01 / C17 (tcp framing)
M("tcp-mbuf-sent-not-advanced", ["C01"], TCP, "\tts->conn.mbuf_sent += rc;\n", "\tts->conn.mbuf_sent += 0;\n")
M("tcp-short-read-is-complete", ["C01"], TCP,
  "    if (rc < len) {\n\terrno = EAGAIN;\n\treturn -1;\n    }\n\n    return 1;", "    return 1;")
M("tcp-no-reset-after-receive", ["C01"], TCP,
  "    mbuf_reset(&ts->conn.receive_mbuf);\n\n    LOG_APP_DELIVERED", "    LOG_APP_DELIVERED")
M("tcp-send-overwrites-pending", ["C01"], TCP,
  "    if (try_finish_send(s) < 0)\n\tgoto err;\n\n    ut_assert(mbuf_is_empty(&ts->conn.send_mbuf));",
  "    if (try_finish_send(s) < 0 && errno != EAGAIN)\n\tgoto err;\n")
M("tls-mbuf-sent-reset", ["C01"], TLS, "\tts->conn.mbuf_sent += rc;\n", "\tts->conn.mbuf_sent = rc;\n")
M("tcp-truncate-drops-next", ["C01"], TCP,
  "\tuser_len = capacity;\n    } else", "\tuser_len = capacity - (capacity > 8);\n    } else")

# ---- C19
MAP = "libxcm/core/xcm_attr_map.c"
PATH = "libxcm/core/attr_path.c"
M("map-add-no-del", ["C19"], MAP, "    xcm_attr_map_del(attr_map, attr_name);\n\n    struct attr *attr =", "    struct attr *attr =")
M("map-store-caller-pointer", ["C19"], MAP, ".value = ut_memdup(value, value_len),", ".value = (void *)value,")
M("map-equal-ignores-values", ["C19"], MAP, "\tif (memcmp(attr_a->value, attr_b->value, attr_a->value_len) != 0)\n\t    return false;\n", "")
M("map-typed-lookup-ignores-type", ["C19"], MAP, "return attr->type == type ? attr : NULL;", "return attr;")
M("path-index-hex", ["C19"], PATH, '"%c%zd%c",\n\t\t\t\tATTR_PATH_INDEX_START', '"%c%zx%c",\n\t\t\t\tATTR_PATH_INDEX_START')
M("path-no-name-max", ["C19"], PATH, "    if (strlen(path_str) > ATTR_PATH_NAME_MAX)\n\treturn NULL;\n", "")
M("path-no-comp-max", ["C19"], PATH, "\tif (path->num_comps == ATTR_PATH_COMP_MAX) {\n\t    attr_path_destroy(path);\n\t    return NULL;\n\t}\n", "")
M("map-clone-shallow-size", ["C19"], MAP, "    if (dst_map != src_map)\n", "    if (1)\n")

# ---- C10 (reverts of repaired defects + others)
TREE = "libxcm/core/attr_tree.c"
TCPATTR = "libxcm/tp/tcp/tcp_attr.c"
XTP = "libxcm/tp/common/xcm_tp.c"
M("attr-no-fixed-capacity-check", ["C10"], TREE,
  "    if (capacity < fixed_value_len(value_type)) {\n\terrno = EOVERFLOW;\n\treturn -1;\n    }\n", "")
M("attr-getf-str-enoent", ["C10"], XCM, "if (errno == EOVERFLOW && actual_type != required_type)", "if (errno == EOVERFLOW)")
M("attr-log-unbounded-str", ["C10"], "libxcm/core/log_attr_tree.c",
  'snprintf(buf, capacity, "\\"%.*s\\"", (int)len, (const char *)value);', 'snprintf(buf, capacity, "\\"%s\\"", (const char *)value);')
M("tcp-set-no-restore", ["C10"], TCPATTR, "\t    opts->optname = old_value;\t\t\t\t\t\\\n", "")
M("tcp-user-timeout-overflow", ["C10"], TCPATTR,
  "\tif (value <= 0 || value > INT_MAX / (k)) {\t\t\t\\",
  "\tint64_t scaled_value = value * (k);\t\t\t\t\\\n\tif (scaled_value <= 0 || scaled_value > INT_MAX) {\t\t\\")
M("attr-str-getter-off-by-one", ["C10"], XTP, "    if (len >= capacity) {\n\terrno = EOVERFLOW;", "    if (len > capacity) {\n\terrno = EOVERFLOW;")
M("attr-max-msg-no-capacity", ["C10"], TREE, "fixed_value_len(value_type)) {", "0) {")
M("attr-set-no-type-check", ["C10"], TREE,
  "    if (attr_node_value_get_value_type(value_node) != type) {", "    if (0) {")
M("attr-set-int64-any-len", ["C10"], TREE, "\treturn len == sizeof(int64_t);", "\treturn true;")
M("attr-set-ro-allowed", ["C10"], TREE, "    if (!attr_node_value_is_writable(value_node)) {", "    if (0 && !attr_node_value_is_writable(value_node)) {")

# ---- C07
MBUF = "libxcm/tp/common/mbuf.h"
M("mbuf-hdr-zero-ok", ["C07"], MBUF, "\tmbuf_complete_payload_len(b) > 0 &&\n", "")
M("mbuf-hdr-max-plus-hdr", ["C07"], MBUF, "\tmbuf_complete_payload_len(b) <= MBUF_MSG_MAX;", "\tmbuf_complete_payload_len(b) <= MBUF_WIRE_MAX;")
M("tcp-bad-hdr-not-sticky", ["C07"], TCP, "\tts->conn.bad = true;\n\tts->conn.badness_reason = EPROTO;\n", "")
M("tls-bad-hdr-not-sticky", ["C07"], TLS, "\tts->conn.bad = true;\n\tts->conn.badness_reason = EPROTO;\n", "")
# (tcp_receive without the conn.bad test is an equivalent mutant: buffer_payload re-detects the bad header)
M("tcp-hdr-valid-skipped", ["C07"], TCP, "    if (!mbuf_is_hdr_valid(rbuf)) {", "    if (0) {")
M("tcp-deliver-partial-on-eof(equivalent:an-EOF-never-finds-a-complete-frame-buffered)", [], TCP, "    int rc = buffer_msg(s);\n    if (rc <= 0)\n\treturn rc;", "    int rc = buffer_msg(s);\n    if (rc < 0)\n\treturn rc;\n    if (rc == 0 && !mbuf_is_complete(&ts->conn.receive_mbuf)) return 0;")

# ---- C06
M("btcp-recv-error-not-sticky", ["C06"], BTCP,
  "\tif (errno != EAGAIN) {\n\t    BTCP_SET_STATE(s, conn_state_bad);\n\t    bts->conn.badness_reason = errno;\n\t}\n    } else if (rc == 0) {",
  "    } else if (rc == 0) {")
M("btcp-send-reset-as-eagain", ["C06"], BTCP,
  "\t    else if (errno != EAGAIN) {\n\t\tBTCP_SET_STATE(s, conn_state_bad);\n\t\tbts->conn.badness_reason = errno;\n\t    }\n\t    goto err;",
  "\t    else if (errno == ECONNRESET) errno = EAGAIN;\n\t    else if (errno != EAGAIN) {\n\t\tBTCP_SET_STATE(s, conn_state_bad);\n\t\tbts->conn.badness_reason = errno;\n\t    }\n\t    goto err;")
M("btls-syscall-error-as-closed", ["C06"], BTLS,
  "\t    } else {\n\t\tBTLS_SET_STATE(s, conn_state_bad);\n\t\tbts->conn.badness_reason = ssl_errno;\n\t    }",
  "\t    } else {\n\t\tBTLS_SET_STATE(s, conn_state_closed);\n\t    }")
M("btcp-finish-ok-when-bad", ["C06"], BTCP,
  "    case conn_state_bad:\n\tLOG_FINISH_SAY_BAD(s, bts->conn.badness_reason);\n\terrno = bts->conn.badness_reason;\n\treturn -1;",
  "    case conn_state_bad:\n\tLOG_FINISH_SAY_BAD(s, bts->conn.badness_reason);\n\treturn 0;")
M("btcp-closed-send-econnreset", ["C06"], BTCP,
  "    case conn_state_closed:\n\terrno = EPIPE;\n\tgoto err;", "    case conn_state_closed:\n\terrno = ECONNRESET;\n\tgoto err;")
M("tcp-receive-close-before-complete", ["C06"], TCP,
  "    if (try_finish_send(s) < 0 && errno != EAGAIN)\n\treturn errno == EPIPE ? 0 : -1;\n\n    int rc = buffer_msg(s);",
  "    if (try_finish_send(s) < 0 && errno != EAGAIN)\n\treturn 0;\n\n    int rc = buffer_msg(s);")
M("ux-reset-not-sticky", ["C06"], UX, "\tif (!is_transient(errno))\n\t    us->badness_reason = errno;\n", "", count=2)
M("btls-handshake-forgets-lower-failure", ["C06"], BTLS, "\tif (bts->conn.state == conn_state_ready)\n\t    check_lower_layer(s);\n", "")
M("tconnect-errno-lost", ["C06"], "libxcm/tp/tcp/tconnect.c",
  "\t    track->badness_reason = connect_errno;\n\t    track_abort_connect(track);\n\t    track_connect_next(track);\n\t} else\n\t    LOG_CONN_IN_PROGRESS",
  "\t    track_abort_connect(track);\n\t    track_connect_next(track);\n\t} else\n\t    LOG_CONN_IN_PROGRESS")
M("tls-receive-ignores-bad(equivalent:the-invalid-header-stays-buffered-and-is-rejected-again)", [], TLS, "    TP_RET_ERR_IF(ts->conn.bad, ts->conn.badness_reason);\n\n    if (try_finish_send(s) < 0 && errno != EAGAIN)\n\treturn errno == EPIPE ? 0 : -1;",
  "    if (try_finish_send(s) < 0 && errno != EAGAIN)\n\treturn errno == EPIPE ? 0 : -1;")

# ---- C04 / C16 / C05 (event loop)
XPOLL = "libxcm/core/xpoll.c"
XTPC = "libxcm/tp/common/xcm_tp.c"
TCONN = "libxcm/tp/tcp/tconnect.c"
UTIL = "common/util.c"
M("tcp-update-no-sendable-for-pending", ["C04"], TCP, "\tbtcp_condition |= XCM_SO_SENDABLE;\n", "")
M("tls-update-no-sendable-for-pending", ["C04"], TLS, "\tbtls_condition |= XCM_SO_SENDABLE;\n", "")
M("btls-update-ignores-ssl-pending(masked-by-next-branch)", [], BTLS,
  "\telse if (s->condition&XCM_SO_RECEIVABLE &&\n\t\t SSL_has_pending(bts->conn.ssl))\n\t    ready = true;\n", "\telse if (0)\n\t    ready = true;\n")
M("btcp-update-no-bell-when-resolved", ["C04"], BTCP, "\tready = xcm_dns_query_completed(bts->conn.query);\n", "\tready = false;\n")
M("btcp-update-no-bell-when-closed", ["C04"], BTCP,
  "    case conn_state_closed:\n    case conn_state_bad:\n\tready = true;\n\tbreak;\n    default:\n\tut_assert(0);\n    }\n\n    if (ready) {\n\txpoll_bell_reg_mod(s->xpoll, bts->conn.bell_reg_id, true);",
  "    case conn_state_closed:\n    case conn_state_bad:\n\tready = false;\n\tbreak;\n    default:\n\tut_assert(0);\n    }\n\n    if (ready) {\n\txpoll_bell_reg_mod(s->xpoll, bts->conn.bell_reg_id, true);")
M("tp-receive-no-auto-update", ["C04"], XTPC,
  "    consider_ctl(s, rc == 0 || (rc < 0 && errno != EAGAIN),\n\t\t rc < 0 && errno == EAGAIN);\n\n    consider_auto_update(s);\n\n    return rc;\n}\n\nvoid xcm_tp_socket_update",
  "    consider_ctl(s, rc == 0 || (rc < 0 && errno != EAGAIN),\n\t\t rc < 0 && errno == EAGAIN);\n\n    return rc;\n}\n\nvoid xcm_tp_socket_update")
M("tconnect-connecting-fd-epollin", ["C04"], TCONN, "track->fd_reg_id = xpoll_fd_reg_add(track->xpoll, fd, EPOLLOUT);", "track->fd_reg_id = xpoll_fd_reg_add(track->xpoll, fd, EPOLLIN);")
M("await-skips-update", ["C04", "C16"], XCM, "static void await(struct xcm_socket *s, int condition)\n{\n    s->condition = condition;\n    xcm_tp_socket_update(s);\n}",
  "static void await(struct xcm_socket *s, int condition)\n{\n    bool changed = s->condition != condition;\n    s->condition = condition;\n    if (changed && condition != 0)\n\txcm_tp_socket_update(s);\n}")
M("xpoll-eventfd-always-watched", ["C16"], XPOLL, "\tint event = has_ringing_bell(xpoll) ? EPOLLIN : 0;\n", "\tint event = EPOLLIN;\n")
M("btls-update-ready-whenever-awaiting", ["C16"], BTLS, "\telse if (s->condition == bts->conn.ssl_condition)\n\t    bts->btcp_socket->condition = bts->conn.ssl_wants;", "\telse if (s->condition == bts->conn.ssl_condition)\n\t    ready = true;")
M("btcp-update-epollout-for-receivable", ["C16"], BTCP, "\tif (s->condition&XCM_SO_RECEIVABLE)\n\t    fd_event |= EPOLLIN;", "\tif (s->condition&XCM_SO_RECEIVABLE)\n\t    fd_event |= EPOLLIN|EPOLLOUT;")
M("ux-server-event-never", ["C04"], UX, "    return condition == XCM_SO_ACCEPTABLE ? EPOLLIN : 0;", "    return 0;")
M("ux-conn-event-sendable-ignored", ["C16"], UX, "    if (condition & XCM_SO_SENDABLE)\n\tevent |= EPOLLOUT;\n", "")
M("receive-waits-when-nonblocking", ["C05"], XCM,
  "    if (conn_s->is_blocking) {\n\tfor (;;) {\n\t    if (socket_wait(conn_s, XCM_SO_RECEIVABLE) < 0)\n\t\treturn -1;",
  "    if (conn_s->is_blocking || xcm_tp_socket_is_bytestream(conn_s)) {\n\tfor (;;) {\n\t    if (socket_wait(conn_s, XCM_SO_RECEIVABLE) < 0)\n\t\treturn -1;")
M("btcp-accept-blocking-fd", ["C05"], BTCP, "ut_accept(server_bts->fd, NULL, NULL, SOCK_NONBLOCK)", "ut_accept(server_bts->fd, NULL, NULL, 0)")
M("ut-established-waits", ["C05"], UTIL, "    UT_PROTECT_ERRNO(poll(&pfd, 1, 0));\n\n    if (pfd.revents & POLLOUT || pfd.revents & POLLERR)", "    UT_PROTECT_ERRNO(poll(&pfd, 1, 10));\n\n    if (pfd.revents & POLLOUT || pfd.revents & POLLERR)")
M("tconnect-blocking-socket", ["C05"], TCONN, "return socket(family, SOCK_STREAM | SOCK_NONBLOCK, IPPROTO_TCP);", "return socket(family, SOCK_STREAM, IPPROTO_TCP);")

# ---- C13
DNSC = "libxcm/tp/dns/xcm_dns_cares.c"
M("tconnect-skips-an-address", ["C13"], TCONN, "    for (idx = track->ip_idx + 1; idx < track->num_remote_ips; idx++) {", "    for (idx = track->ip_idx + 1 + (track->ip_idx == 1); idx < track->num_remote_ips; idx++) {")
M("tconnect-single-tries-all", ["C13"], TCONN, "\t\t\t\t\t   remote_ips, 1, remote_port);", "\t\t\t\t\t   remote_ips, num_remote_ips, remote_port);")
M("tconnect-first-track-errno-wins", ["C13"], TCONN, "\telse if (rc < 0 && errno == EAGAIN)\n\t    in_progress = true;\n\telse\n\t    fatal_errno = errno;", "\telse if (rc < 0 && errno == EAGAIN)\n\t    in_progress = true;\n\telse {\n\t    fatal_errno = errno;\n\t    break;\n\t}")
M("dns-overall-timeout-ignored", ["C13"], DNSC, "    if (query->state != query_state_successful &&\n\ttimer_mgr_has_expired(query->timer_mgr, query->overall_timer_id)) {", "    if (0 && query->state != query_state_successful &&\n\ttimer_mgr_has_expired(query->timer_mgr, query->overall_timer_id)) {")
M("tconnect-timeout-no-abort", ["C13"], TCONN, "\ttimer_mgr_ack(track->timer_mgr, &track->timer_id);\n\ttrack_abort_connect(track);\n\ttrack_connect_next(track);\n\n\treturn;", "\ttimer_mgr_ack(track->timer_mgr, &track->timer_id);\n\ttrack_connect_next(track);\n\n\treturn;")
M("tconnect-timeout-reports-refused", ["C13"], TCONN, "\ttrack->badness_reason = ETIMEDOUT;", "\ttrack->badness_reason = ECONNREFUSED;")
M("happy-no-ipv4-delay", ["C13"], TCONN, "\thas_ipv6 ? HAPPY_EYEBALLS_INITIAL_IPV4_DELAY : 0;", "\t0;")
M("tconnect-local-addr-only-first", ["C13"], TCONN, "    if (track->has_local_ip && !*fd_bound) {", "    if (track->has_local_ip && !*fd_bound && track->ip_idx == 0) {")
M("dns-result-truncated-to-8", ["C13"], "libxcm/tp/tcp/xcm_tp_btcp.c", "    int rc = xcm_dns_query_result(bts->conn.query, remote_ips,\n\t\t\t\t  XCM_DNS_MAX_RESULT_SIZE);", "    int rc = xcm_dns_query_result(bts->conn.query, remote_ips,\n\t\t\t\t  8);")

# ---- C11
M("btcp-no-reapply-after-connecting", ["C11"], BTCP, "\tif (!tcp_opts_equal(&bts->conn.tcp_opts, &tcp_opts))\n\t    rc = tcp_opts_effectuate(&bts->conn.tcp_opts, bts->fd);", "\tif (0)\n\t    rc = tcp_opts_effectuate(&bts->conn.tcp_opts, bts->fd);")
M("tcp-opts-equal-and-for-eq", ["C11"], TCPATTR, "opts_a->user_timeout == opts_b->user_timeout;", "opts_a->user_timeout && opts_b->user_timeout;")
M("tcp-set-not-applied-when-established", ["C11"], TCPATTR, "\topts->optname = value;\t\t\t\t\t\t\\\n\tif (fd < 0)\t\t\t\t\t\t\t\\\n\t    return 0;", "\topts->optname = value;\t\t\t\t\t\t\\\n\tif (fd < 0 || value == 7)\t\t\t\t\t\\\n\t    return 0;")
M("tcp-user-timeout-unscaled", ["C11"], TCPATTR, "GEN_EFFECTUATE_SCALE(user_timeout, TCP_USER_TIMEOUT, 1000)", "GEN_EFFECTUATE_SCALE(user_timeout, TCP_USER_TIMEOUT, 1)")
M("tcp-keepalive-toggle-not-applied", ["C11"], TCPATTR, "    if (effectuate_keepalive(fd, keepalive) < 0)\n\treturn -1;\n\n    return 0;", "    return 0;")
M("default-service-always-messaging", ["C11"], XCM, "\tif (parent_s != NULL)\n\t    bytestream = xcm_tp_socket_is_bytestream(parent_s);", "\tif (0)\n\t    bytestream = xcm_tp_socket_is_bytestream(parent_s);")
M("btls-accept-no-check-time-inherit", ["C11"], BTLS, "    bts->check_time = parent_bts->check_time;\n", "")
M("btls-accept-no-auth-inherit", ["C11"], BTLS, "    bts->tls_auth = parent_bts->tls_auth;\n", "")
M("accepted-always-nonblocking", ["C11"], XCM, "    conn_s = socket_create(server_s->proto, xcm_socket_type_conn,\n\t\t\t   conn_is_blocking);", "    conn_s = socket_create(server_s->proto, xcm_socket_type_conn,\n\t\t\t   false);")
M("accept-map-blocking-ignored", ["C11"], XCM, "    if (attr_blocking != NULL)\n\tconn_is_blocking = *attr_blocking;\n", "")

# ---- C20
XREL = "tools/xcmrelay/xrelay.c"
M("relay-no-memmove-after-partial", ["C20"], XREL, "    else\n\tmemmove(relay->data, relay->data + rc, relay->data_len);", "")
M("relay-keeps-reading-while-blocked(equivalent:spins-only)", [], XREL, "    add_condition(relay->dst_conn, relay->dst_condition, XCM_SO_SENDABLE);\n    del_condition(relay->src_conn, relay->src_condition, XCM_SO_RECEIVABLE);", "    add_condition(relay->dst_conn, relay->dst_condition, XCM_SO_SENDABLE);")
M("relay-dispatch-on-wrong-fd", ["C20"], XREL, "\tif (fd == xcm_fd(relay->dst_conn))\n\t    xfwd_send(relay);", "\tif (fd == xcm_fd(relay->src_conn))\n\t    xfwd_send(relay);")
M("relay-receive-full-buffer-len", ["C20"], XREL, "\trelay->data_len = rc;\n\txfwd_await_output(relay);", "\trelay->data_len = rc > 60000 ? sizeof(relay->data) : rc;\n\txfwd_await_output(relay);")
M("relay-msg-partial-as-stream", ["C20"], XREL, "    if (rc == 0) /* message-oriented transport */\n\trelay->data_len = 0;", "    if (rc == 0 && relay->data_len < 65000) /* message-oriented transport */\n\trelay->data_len = 0;")
M("relay-eagain-drops-message", ["C20"], XREL, "\telse if (errno != EAGAIN)\n\t    xfwd_handle_err(relay, \"Error sending to XCM\");\n\treturn;", "\telse if (errno != EAGAIN)\n\t    xfwd_handle_err(relay, \"Error sending to XCM\");\n\telse if (relay->data_len < 100) relay->data_len = 0;\n\treturn;")

# ---- C14
CTL = "libxcm/ctl/ctl.c"
M("ctl-accepts-any-datagram-size", ["C14"], CTL, "    } else if (recv_rc != sizeof(struct ctl_proto_msg)) {", "    } else if (0) {")
M("ctl-sensitive-is-key-file", ["C14"], CTL, "    return strcmp(attr_name, XCM_ATTR_TLS_KEY) == 0;", "    return strcmp(attr_name, XCM_ATTR_TLS_KEY_FILE) == 0;")
M("ctl-no-unlink-on-close", ["C14"], CTL, "\tif (rc == 0 && owner)\n\t    unlink(laddr.sun_path);\n", "")
M("ctl-get-attr-capacity-too-large", ["C14"], CTL, "\t\t\t  &cfm->attr.any_value, sizeof(cfm->attr.any_value));", "\t\t\t  &cfm->attr.any_value, sizeof(cfm->attr));")
M("ctl-sensitive-not-cleared", ["C14"], CTL, "    if (is_sensitive(req->attr_name)) {\n\tclear_attr(&cfm->attr);", "    if (is_sensitive(req->attr_name)) {")
M("ctl-get-all-includes-key", ["C14"], CTL, "    if (is_sensitive(attr_name))\n\treturn;\n\n    struct ctl_proto_get_all_attr_cfm *cfm = data;", "    struct ctl_proto_get_all_attr_cfm *cfm = data;")
M("ctl-rej-errno-lost", ["C14"], CTL, "\tresponse->get_attr_rej.rej_errno = attr_errno;", "\tresponse->get_attr_rej.rej_errno = ENOENT;")
M("ctl-value-len-off-by-one", ["C14"], CTL, "\tcfm->attr.value_len = rc;", "\tcfm->attr.value_len = rc > 3 ? rc - 1 : rc;")

# ---- C09
M("tls-skip-verify-peer-cert(equivalent-alone:FAIL_IF_NO_PEER_CERT-covers)", [], BTLS, "\tif (bts->tls_auth)\n\t    verify_peer_cert(s);", "\tif (0)\n\t    verify_peer_cert(s);")
M("tls-server-role-verify-none", ["C09"], BTLS, "    if (tls_auth) {\n\tmode = SSL_VERIFY_PEER;", "    if (tls_auth && tls_client) {\n\tmode = SSL_VERIFY_PEER;")
M("tls-no-inherit-verify-peer-name", ["C09"], BTLS, "    bts->verify_peer_name = parent_bts->verify_peer_name;\n", "")
M("tls-no-inherit-check-crl", ["C09"], BTLS, "    bts->check_crl = parent_bts->check_crl;\n", "")
M("tls-hostname-only-first-name", ["C09"], BTLS, "    for (i = 0; i < slist_len(bts->valid_peer_names); i++) {\n\tconst char *name = slist_get(bts->valid_peer_names, i);", "    for (i = 0; i < 1; i++) {\n\tconst char *name = slist_get(bts->valid_peer_names, i);")
M("tls-no-check-time-always", ["C09"], BTLS, "    if (!check_time)\n\tadditional_flags |= X509_V_FLAG_NO_CHECK_TIME;", "    additional_flags |= X509_V_FLAG_NO_CHECK_TIME;")
M("tls-crl-check-leaf-only", ["C09"], BTLS, "\tadditional_flags |= (X509_V_FLAG_CRL_CHECK|X509_V_FLAG_CRL_CHECK_ALL);", "\tadditional_flags |= X509_V_FLAG_CRL_CHECK;")
M("tls-crl-without-auth-accepted", ["C09"], BTLS, "    if (!bts->tls_auth && bts->check_crl) {", "    if (0 && !bts->tls_auth && bts->check_crl) {")
M("tls-verify-result-ignored-on-client(equivalent:handshake-fails-first)", [], BTLS, "\tif (err == X509_V_OK)\n\t    LOG_TLS_CERT_OK(s);", "\tif (err == X509_V_OK || (bts->tls_client && err == X509_V_ERR_CERT_HAS_EXPIRED))\n\t    LOG_TLS_CERT_OK(s);")

# ---- C18
CTXS = "libxcm/tp/tls/ctx_store.c"
M("ctx-hash-ignores-inode(equivalent:mtime-differs)", [], CTXS, "    EVP_DigestUpdate(ctx, &statbuf.st_ino, sizeof(statbuf.st_ino));\n", "")
M("ctx-hash-ignores-mtime-nsec(needs-same-second-rewrite)", [], CTXS, "    EVP_DigestUpdate(ctx, &statbuf.st_mtim.tv_nsec,\n\t\t     sizeof(statbuf.st_mtim.tv_nsec));\n", "")
M("ctx-hash-ignores-mtime", ["C18"], CTXS, "    EVP_DigestUpdate(ctx, &statbuf.st_mtim.tv_sec,\n\t\t     sizeof(statbuf.st_mtim.tv_sec));\n    EVP_DigestUpdate(ctx, &statbuf.st_mtim.tv_nsec,\n\t\t     sizeof(statbuf.st_mtim.tv_nsec));\n", "")
M("ctx-hash-does-not-follow-symlink", ["C18"], CTXS, "    if (!follow && (statbuf.st_mode & S_IFMT) == S_IFLNK)\n\treturn do_hash_file(file, ctx, true, log_ref);", "")
M("ctx-hash-no-item-tags(equivalent:length-prefix-suffices)", [], CTXS, "    EVP_DigestUpdate(ctx, &item->type, sizeof(item->type));\n", "")
M("ctx-hash-skips-tc", ["C18"], CTXS, "    if (hash_item(tc, ctx, log_ref) < 0)\n\tgoto err;\n", "")
M("ctx-hash-skips-crl", ["C18"], CTXS, "    if (hash_item(crl, ctx, log_ref) < 0)\n\tgoto err;\n", "")
M("ctx-no-private-key-check", ["C18"], CTXS, "    if (SSL_CTX_check_private_key(ssl_ctx) != 1) {\n\tLOG_TLS_INCONSISTENT_KEY(log_ref);\n\tgoto err_free;\n    }\n", "")
M("tls-netns-name-cached-per-thread", ["C18"], BTLS, "    if (ut_self_net_ns(ns) < 0) {\n\tLOG_TLS_NET_NS_LOOKUP_FAILED(s, errno);\n\tns[0] = '\\0';\n    }\n", "    static __thread char cached_ns[NAME_MAX];\n    static __thread bool have_ns;\n    if (!have_ns) {\n\tif (ut_self_net_ns(cached_ns) < 0)\n\t    cached_ns[0] = '\\0';\n\thave_ns = true;\n    }\n    strcpy(ns, cached_ns);\n")
M("tls-crl-lookup-ignores-namespace", ["C18"], BTLS, "\tget_crl_file(ns, cert_dir, &bts->crl);", "\tget_crl_file(\"\", cert_dir, &bts->crl);")
M("tls-tc-lookup-ignores-namespace", ["C18"], BTLS, "\tget_tc_file(ns, cert_dir, &bts->tc);", "\tget_tc_file(\"\", cert_dir, &bts->tc);")
M("netns-lookup-uses-process-not-thread", ["C18"], "common/util.c", "    snprintf(self_net_ns, sizeof(self_net_ns), \"/proc/%d/ns/net\", ut_gettid());", "    snprintf(self_net_ns, sizeof(self_net_ns), \"/proc/%d/ns/net\", getpid());")
M("ctx-store-never-frees", ["C18"], CTXS, "\tSSL_CTX_free(entry->ssl_ctx);", "\t;")
M("tls-cert-dir-env-cached", ["C18"], BTLS, "    const char *cert_dir = getenv(TLS_CERT_ENV);\n    return cert_dir != NULL ? cert_dir : DEFAULT_CERT_DIR;", "    static const char *cert_dir;\n    if (cert_dir == NULL)\n\tcert_dir = getenv(TLS_CERT_ENV);\n    return cert_dir != NULL ? cert_dir : DEFAULT_CERT_DIR;")
M("ctx-unreadable-errno-leaks", ["C18"], CTXS, "\tif (item_load(cert, &cert_data) < 0) {\n\t    errno = EPROTO;\n\t    goto out;\n\t}", "\tif (item_load(cert, &cert_data) < 0) {\n\t    goto out;\n\t}")

# ---- C15
AFD = "libxcm/tp/common/active_fd.c"
M("active-fd-get-unlocked", ["C15"], AFD, "int active_fd_get(void)\n{\n    ut_mutex_lock(&active_fd_lock);\n\n    struct active_fd *active_fd = fd_retrieve();\n\n    if (active_fd != NULL)\n\tgoto out;\n\n    active_fd = fd_create();\n\nout:\n    ut_mutex_unlock(&active_fd_lock);",
  "int active_fd_get(void)\n{\n    struct active_fd *active_fd = fd_retrieve();\n\n    if (active_fd != NULL)\n\tgoto out;\n\n    active_fd = fd_create();\n\nout:\n    ;")
M("sock-id-unlocked", ["C15"], XTPC, "    ut_mutex_lock(&next_id_lock);\n    nid = next_id++;\n    ut_mutex_unlock(&next_id_lock);", "    nid = next_id++;")
