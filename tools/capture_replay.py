#!/usr/bin/env python3
"""tools/capture_replay.py MUTANT PROP DEST : apply a mutant (usually the
revert of a repaired defect) to the scratch worktree, run PROP's quick check,
copy the first violation's replay to DEST, verify it passes on /repo."""
import os, re, shutil, subprocess, sys
VERIF = os.path.dirname(os.path.dirname(os.path.abspath(__file__)))
sys.path.insert(0, os.path.join(VERIF, "tools"))
from mutants import MUTANTS
name, prop, dest = sys.argv[1:4]
S = "/tmp/xcm-mut"
if not os.path.isdir(S):
    subprocess.run("git -C /repo worktree add -f --detach %s HEAD" % S, shell=True, check=True)
subprocess.run("git -C %s checkout -q --detach $(git -C /repo rev-parse HEAD) && git -C %s checkout -- ." % (S, S), shell=True, check=True)
if name.startswith("revert:"):
    # undo one fix: commit in the scratch tree
    subprocess.run("git -C %s revert --no-commit %s" % (S, name[7:]), shell=True, check=True)
    p = None
else:
    m = [x for x in MUTANTS if x["name"] == name][0]
    p = os.path.join(S, m["file"]); src = open(p).read()
    assert src.count(m["old"]) == m.get("count", 1)
    open(p, "w").write(src.replace(m["old"], m["new"]))
try:
    r = subprocess.run("cd %s && XCM_SRC=%s ./check %s --tier quick" % (VERIF, S, prop), shell=True, stdout=subprocess.PIPE, text=True)
    mm = re.search(r"VIOLATION property=\S+ replay=(\S+)", r.stdout)
    if not mm:
        print("no violation"); sys.exit(1)
    os.makedirs(os.path.dirname(os.path.join(VERIF, dest)), exist_ok=True)
    shutil.copy(mm.group(1), os.path.join(VERIF, dest))
    r2 = subprocess.run("cd %s && XCM_SRC=%s ./check %s --replay %s" % (VERIF, S, prop, dest), shell=True, stdout=subprocess.PIPE, text=True)
    print("on reverted tree:", "FAILS" if r2.returncode else "passes(!)", [l for l in r2.stdout.splitlines() if "FAILED" in l or "ERROR" in l][:1])
finally:
    if p:
        open(p, "w").write(src)
    else:
        subprocess.run("git -C %s revert --abort; git -C %s reset -q --hard" % (S, S), shell=True)
r3 = subprocess.run("cd %s && ./check %s --replay %s" % (VERIF, prop, dest), shell=True, stdout=subprocess.PIPE, text=True)
print("on /repo:", "passes" if r3.returncode == 0 else "FAILS(!)")
