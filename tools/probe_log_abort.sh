#!/bin/sh
# tools/probe_log_abort.sh [TREE]  (default /repo, needs TREE/.libs/libxcm.so)
# Directed probe for the observation at the end of DESIGN.md §8.3 (not a
# registered check): with logging on and descriptor 0 an AF_UNIX socket, creating
# any btcp socket aborts in sockaddr_to_ip (xpoll_create logs with a socket whose
# transport part is not initialised yet; getsockname(0)).
# Prints ABORTS or OK; exit status 0 either way (it is a probe, not an oracle).
T="${1:-/repo}"
D=$(mktemp -d /tmp/probe-log.XXXXXX)
trap 'rm -rf "$D"' EXIT
cat > "$D/t.c" <<'EOC'
#include <xcm.h>
#include <xcm_attr_map.h>
#include <stdio.h>
#include <sys/socket.h>
#include <unistd.h>
int main(void)
{
    int sv[2];
    if (socketpair(AF_UNIX, SOCK_STREAM, 0, sv) < 0)
	return 2;
    dup2(sv[0], 0);		/* stdin is a UNIX domain socket */
    struct xcm_attr_map *m = xcm_attr_map_create();
    xcm_attr_map_add_str(m, "xcm.service", "bytestream");
    struct xcm_socket *s = xcm_server_a("btcp:127.0.0.1:0", m);
    printf("%s\n", s != NULL ? "created" : "refused");
    if (s != NULL)
	xcm_close(s);
    return 0;
}
EOC
gcc -I"$T/include" -o "$D/t" "$D/t.c" -L"$T/.libs" -lxcm || exit 0
if XCM_DEBUG=1 LD_LIBRARY_PATH="$T/.libs" "$D/t" >/dev/null 2>"$D/err"; then
    echo "OK: btcp server created with logging on and a UNIX socket as stdin"
else
    echo "ABORTS: $(grep -m1 Assertion "$D/err")"
fi
exit 0
