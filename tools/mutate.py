#!/usr/bin/env python3
"""Sensitivity runner: applies one small mutation at a time to a scratch
worktree of /repo (never to /repo itself), runs the named checks with
XCM_SRC pointing at it, and reports which mutants were caught.

  tools/mutate.py [--tier quick] [--only NAME[,NAME]] [--props C01,C17]
"""
import argparse
import os
import subprocess
import sys
import time

VERIF = os.path.dirname(os.path.dirname(os.path.abspath(__file__)))
sys.path.insert(0, os.path.join(VERIF, "tools"))
from mutants import MUTANTS  # noqa: E402

SCRATCH = "/tmp/xcm-mut"


def sh(cmd, **kw):
    return subprocess.run(cmd, shell=True, stdout=subprocess.PIPE,
                          stderr=subprocess.STDOUT, text=True, **kw)


def main():
    ap = argparse.ArgumentParser()
    ap.add_argument("--tier", default="quick")
    ap.add_argument("--only")
    ap.add_argument("--props")
    ap.add_argument("--seed", default="1")
    a = ap.parse_args()
    if not os.path.isdir(SCRATCH):
        r = sh("git -C /repo worktree add -f --detach %s HEAD" % SCRATCH)
        if r.returncode:
            print(r.stdout)
            return 2
    else:
        sh("git -C %s checkout -q --detach $(git -C /repo rev-parse HEAD) && git -C %s checkout -- ." % (SCRATCH, SCRATCH))
    only = set(a.only.split(",")) if a.only else None
    props = set(a.props.split(",")) if a.props else None
    results = []
    for m in MUTANTS:
        if only and m["name"] not in only:
            continue
        mprops = [p for p in m["props"] if not props or p in props]
        if not mprops:
            continue
        path = os.path.join(SCRATCH, m["file"])
        src = open(path).read()
        n = src.count(m["old"])
        if n != m.get("count", 1):
            print("MUTANT %s: pattern occurs %d times (expected %d) - skipped" %
                  (m["name"], n, m.get("count", 1)))
            results.append((m["name"], "-", "PATTERN"))
            continue
        open(path, "w").write(src.replace(m["old"], m["new"]))
        try:
            for p in mprops:
                t0 = time.time()
                env = dict(os.environ, XCM_SRC=SCRATCH, VERIF_SEED=a.seed)
                r = sh("cd %s && ./check %s --tier %s" % (VERIF, p, a.tier), env=env)
                caught = r.returncode == 1 and "VIOLATION property=%s" % p in r.stdout
                if r.returncode == 2:
                    verdict = "BUILD-FAIL"
                else:
                    verdict = "CAUGHT" if caught else "MISSED"
                line = [l for l in r.stdout.splitlines() if l.startswith("   ")]
                print("MUTANT %-34s %s %-10s %5.1fs  %s" %
                      (m["name"], p, verdict, time.time() - t0,
                       (line[0].strip()[:140] if line else "")))
                sys.stdout.flush()
                results.append((m["name"], p, verdict))
        finally:
            open(path, "w").write(src)
    missed = [r for r in results if r[2] != "CAUGHT"]
    print("%d runs, %d not caught" % (len(results), len(missed)))
    # leave the evidence of the real tree in place: re-run nothing here
    return 0


if __name__ == "__main__":
    sys.exit(main())
