#!/bin/sh
# tools/sweep.sh TIER SEEDS PROPS... : run the checks with several seeds on the current tree
# (flakiness / depth sweep); prints one line per run.
tier=$1; seeds=$2; shift 2
for s in $seeds; do for p in "$@"; do
  out=$(VERIF_SEED=$s ./check $p --tier $tier --seed $s 2>&1 | grep -v "^WARNING: conda" | grep -v "^KNOWN-FINDING")
  echo "seed=$s $(echo "$out" | grep -E "quick:|thorough:" | tail -1) $(echo "$out" | grep -c VIOLATION) violation-lines $(echo "$out" | grep -c '^note:') notes"
  echo "$out" | grep -E "VIOLATION|^   |^note:" | cut -c1-300
done; done
