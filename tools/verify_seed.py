#!/usr/bin/env python3
"""tools/verify_seed.py PROP N [--checks C01,C17] [--no-suite] [--tier quick]

Confirms one seeded change produced by a sub-agent in its scratch worktree
/tmp/seed-PROP (seed/N/patch.diff + demo): the patched tree builds, the
repository's pinned suite still passes, the demonstration fails with the
change and passes without it; then runs the named checks (default: PROP)
against the patched tree (XCM_SRC) and records whether they report a
violation.  On success copies everything to /verif/seeded/PROP-N/ with
meta.json.  Never touches /repo."""
import argparse
import json
import os
import re
import shutil
import subprocess
import sys
import time

VERIF = os.path.dirname(os.path.dirname(os.path.abspath(__file__)))


def sh(cmd, cwd=None, env=None, timeout=3600):
    try:
        r = subprocess.run(cmd, shell=True, cwd=cwd, env=env, timeout=timeout,
                           stdout=subprocess.PIPE, stderr=subprocess.STDOUT,
                           text=True, errors="replace")
        return r.returncode, r.stdout
    except subprocess.TimeoutExpired as e:
        return 124, (e.stdout.decode(errors="replace") if isinstance(e.stdout, bytes) else (e.stdout or "")) + "\nTIMEOUT"


def build(tree):
    rc, out = sh("make -j8 >/dev/null 2>&1 && make -j8 xcmtest 2>&1 | tail -5", cwd=tree)
    return rc == 0, out


def run_demo(tree, d):
    env = dict(os.environ)
    env.pop("XCM_DEBUG", None)
    env["LD_LIBRARY_PATH"] = os.path.join(tree, ".libs")
    if os.path.exists(os.path.join(d, "demo.sh")):
        rc, out = sh("bash ./demo.sh", cwd=d, env=env, timeout=600)
    else:
        exe = "/tmp/demo-%s-%s" % (os.path.basename(tree), os.path.basename(d))
        rc, out = sh("gcc -Wall -rdynamic -I%s/include -I%s/common -o %s demo.c -L%s/.libs -lxcm -lssl -lcrypto -lpthread -ldl 2>&1 | tail -5"
                     % (tree, tree, exe, tree), cwd=d)
        if not os.path.exists(exe):
            return None, "demo does not compile: " + out
        rc, out = sh(exe, cwd=tree, env=env, timeout=600)
        os.unlink(exe)
    failed = rc != 0 or re.search(r"\bFAIL", out) is not None
    return failed, out[-1500:]


def run_suite(tree):
    base = set(json.load(open("/root/.vp/BASELINE.json"))["stable_pass"])
    rc, out = sh("./xcmtest -v -p 8 2>&1", cwd=tree, timeout=2400)
    ok = set(m.group(1) for m in re.finditer(r"^\s*(\w+:\w+): OK", out, re.M))
    # stable in the recorded baseline, but failing most solo runs on the unchanged tree in
    # this sandbox (timing assertion at xcm_testcases.c:2060): not attributable to a seed
    flaky_here = {"xcm:backpressure_with_slow_server"}
    missing = sorted(base - ok - flaky_here)
    # retry the missing ones alone (machine load makes timing tests flaky)
    still = []
    for t in missing:
        good = False
        for _ in range(2):
            rc, o = sh("./xcmtest -v %s 2>&1" % t, cwd=tree, timeout=900)
            if re.search(r"^\s*%s: OK" % re.escape(t), o, re.M):
                good = True
                break
        if not good:
            still.append(t)
    return still, missing


def main():
    ap = argparse.ArgumentParser()
    ap.add_argument("prop")
    ap.add_argument("n")
    ap.add_argument("--checks")
    ap.add_argument("--no-suite", action="store_true")
    ap.add_argument("--tier", default="quick")
    ap.add_argument("--tree")
    ap.add_argument("--id", help="id to store under (default: n)")
    a = ap.parse_args()
    sid = a.id or a.n
    tree = a.tree or "/tmp/seed-%s" % a.prop
    d = os.path.join(tree, "seed", a.n)
    patch = os.path.join(d, "patch.diff")
    res = {"property": a.prop, "seed": a.n, "tree": tree}
    sh("git checkout -- libxcm common libxcmctl tools include", cwd=tree)
    # the scratch tree follows /repo's HEAD (fix: commits made after the tree was created)
    sh("git checkout -q --detach $(git -C /repo rev-parse HEAD)", cwd=tree)
    rc, out = sh("git apply --check %s" % patch, cwd=tree)
    if rc:
        res["error"] = "patch does not apply: " + out[-300:]
        print(json.dumps(res))
        return 1
    sh("git apply %s" % patch, cwd=tree)
    try:
        ok, out = build(tree)
        res["builds"] = ok
        if not ok:
            res["error"] = out[-500:]
            return 1
        failed, out = run_demo(tree, d)
        res["demo_fails_with_change"] = failed
        res["demo_output_with_change"] = out[-600:]
        if not a.no_suite:
            still, missing = run_suite(tree)
            res["suite_not_passing_with_change"] = still
            res["suite_flaky_first_run"] = missing
        checks = (a.checks or a.prop).split(",")
        res["checks"] = {}
        for c in checks:
            t0 = time.time()
            env = dict(os.environ, XCM_SRC=tree)
            rc, out = sh("./check %s --tier %s" % (c, a.tier), cwd=VERIF, env=env, timeout=7200)
            lines = [l.strip() for l in out.splitlines() if l.startswith("   ")]
            res["checks"][c] = {"caught": rc == 1 and "VIOLATION property=%s" % c in out,
                                "rc": rc, "seconds": round(time.time() - t0, 1),
                                "message": lines[0][:300] if lines else out[-300:]}
    finally:
        sh("git checkout -- libxcm common libxcmctl tools include", cwd=tree)
        ok, _ = build(tree)
    failed, out = run_demo(tree, d)
    res["demo_fails_without_change"] = failed
    confirmed = (res.get("builds") and res.get("demo_fails_with_change") is True and
                 res.get("demo_fails_without_change") is False and
                 (a.no_suite or not res.get("suite_not_passing_with_change")))
    res["confirmed"] = bool(confirmed)
    dst = os.path.join(VERIF, "seeded", "%s-%s" % (a.prop, sid))
    if confirmed:
        os.makedirs(dst, exist_ok=True)
        for f in os.listdir(d):
            if f in ("demo", "suite.log") or os.path.isdir(os.path.join(d, f)):
                continue
            shutil.copy(os.path.join(d, f), dst)
        readme = open(os.path.join(d, "README.md"), errors="replace").read() if os.path.exists(os.path.join(d, "README.md")) else ""
        old = {}
        try:
            old = json.load(open(os.path.join(VERIF, "seeded", "%s-%s" % (a.prop, sid), "meta.json")))
        except Exception:
            pass
        if a.no_suite and "suite_not_passing_with_change" in old:
            res["suite_not_passing_with_change"] = old["suite_not_passing_with_change"]
        prev_checks = old.get("checks_run", {})
        prev_checks.update(res["checks"])
        res["checks"] = prev_checks
        desc = {}
        try:
            desc = json.load(open(os.path.join(VERIF, "seeded", "descriptions.json"))).get("%s-%s" % (a.prop, sid), {})
        except Exception:
            pass
        meta = {
            "property": a.prop,
            "breaks": ("property %s: %s" % (a.prop, desc["change"])) if desc else "see README.md (written by the seeding sub-agent)",
            "needs_to_manifest": desc.get("needs", "see README.md"),
            "confirmed_by": "tools/verify_seed.py in scratch worktree %s: patched tree builds; pinned suite: no baseline test "
                            "stops passing (tests failing once under load were re-run alone); demo fails with the change "
                            "and passes without it" % tree,
            "suite_not_passing_with_change": res.get("suite_not_passing_with_change"),
            "checks_run": res["checks"],
        }
        json.dump(meta, open(os.path.join(dst, "meta.json"), "w"), indent=1)
    print(json.dumps(res, indent=1))
    return 0


if __name__ == "__main__":
    sys.exit(main())
