#!/bin/sh
# Runs the repository's own pinned test suite (guard OFF: the autotools build
# never defines ERICSSON_XCM_VERIF) and compares with the stable baseline.
set -e
cd /repo
make -j16 >/tmp/xcm-make.log 2>&1 || { tail -30 /tmp/xcm-make.log; exit 2; }
./xcmtest -v -p 8 "$@" > /tmp/xcm-suite.log 2>&1 || true
python3 - <<'PY'
import json,re,sys
base=set(json.load(open('/root/.vp/BASELINE.json'))['stable_pass'])
log=open('/tmp/xcm-suite.log',errors='replace').read()
ok=set(); bad=set()
for line in log.splitlines():
    m=re.match(r'^\s*(\w+:\w+): (OK|FAILED|TIMED OUT|CRASHED|NOT RUN)', line)
    if m:
        (ok if m.group(2) == 'OK' else bad).add(m.group(1))
missing=sorted(base-ok)
print("baseline %d, passed now %d, baseline tests not passing: %d" % (len(base), len(ok&base), len(missing)))
for t in missing: print("  NOT PASSING:", t)
sys.exit(1 if missing else 0)
PY
