#!/bin/sh
# tools/mkseedtree.sh DIR : scratch worktree of /repo HEAD, configured and built
# with the repository's own autotools build (for seeded-change experiments).
# Remove with: git -C /repo worktree remove --force DIR
set -e
D="$1"
git -C /repo worktree add -f --detach "$D" HEAD >/dev/null 2>&1
cd "$D"
./autogen.sh >/dev/null 2>&1
./configure >/dev/null 2>&1
make -j8 >/dev/null 2>&1
echo "built $D"
