#!/usr/bin/env python3
"""Re-runs the registered checks against every stored seeded change
(/verif/seeded/<id>/patch.diff) in a scratch worktree of /repo, and records
in each meta.json which checks catch it now.

  tools/recheck_seeds.py [--only C02-3,C18-4] [--tier quick]

A seed counts as caught when at least one of the checks named in its
meta.json ("checks_run") exits 1 with a VIOLATION line for that property.
"""
import argparse
import json
import os
import subprocess
import sys
import time

VERIF = os.path.dirname(os.path.dirname(os.path.abspath(__file__)))
SCRATCH = "/tmp/xcm-reseed"


def sh(cmd, **kw):
    return subprocess.run(cmd, shell=True, stdout=subprocess.PIPE,
                          stderr=subprocess.STDOUT, text=True, **kw)


def main():
    ap = argparse.ArgumentParser()
    ap.add_argument("--only")
    ap.add_argument("--tier", default="quick")
    a = ap.parse_args()
    if not os.path.isdir(SCRATCH):
        r = sh("git -C /repo worktree add -f --detach %s HEAD" % SCRATCH)
        if r.returncode:
            print(r.stdout)
            return 2
    sh("git -C %s checkout -q --detach $(git -C /repo rev-parse HEAD) && git -C %s checkout -- ." % (SCRATCH, SCRATCH))
    only = set(a.only.split(",")) if a.only else None
    missed = []
    for sid in sorted(os.listdir(os.path.join(VERIF, "seeded"))):
        d = os.path.join(VERIF, "seeded", sid)
        patch = os.path.join(d, "patch.diff")
        if not os.path.isfile(patch) or (only and sid not in only):
            continue
        meta = json.load(open(os.path.join(d, "meta.json")))
        checks = list(meta.get("checks_run", {}).keys()) or [meta["property"]]
        r = sh("git apply %s" % patch, cwd=SCRATCH)
        if r.returncode:
            print("SEED %-8s patch does not apply any more: %s" % (sid, r.stdout[-200:]))
            missed.append(sid)
            continue
        caught_by = []
        try:
            for c in checks:
                t0 = time.time()
                env = dict(os.environ, XCM_SRC=SCRATCH)
                r = sh("./check %s --tier %s" % (c, a.tier), cwd=VERIF, env=env)
                caught = r.returncode == 1 and "VIOLATION property=%s" % c in r.stdout
                lines = [l.strip() for l in r.stdout.splitlines() if l.startswith("   ")]
                meta.setdefault("checks_run", {})[c] = {
                    "caught": caught, "rc": r.returncode, "seconds": round(time.time() - t0, 1),
                    "message": lines[0][:300] if lines else r.stdout[-300:]}
                if caught:
                    caught_by.append(c)
                print("SEED %-8s %s %-7s %5.1fs  %s" % (sid, c, "CAUGHT" if caught else "missed", time.time() - t0,
                                                      lines[0][:120] if lines else ""))
                sys.stdout.flush()
        finally:
            sh("git checkout -- .", cwd=SCRATCH)
        json.dump(meta, open(os.path.join(d, "meta.json"), "w"), indent=1)
        if not caught_by:
            missed.append(sid)
    print("not caught by any of their checks: %s" % (", ".join(missed) if missed else "none"))
    return 0


if __name__ == "__main__":
    sys.exit(main())
