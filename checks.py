"""Per-property configuration of the driver."""

CHECKS = {}

CHECKS["C12"] = dict(
    harness="C12_addr", sources=["props/C12_addr.cc"], variant="asan",
    level="exploration", engine="rapidcheck + exhaustive loops + ASan/UBSan",
    exhaustive_claim=True,
    technique="property-based testing (rapidcheck) against a reference codec + exhaustive "
              "port x capacity enumeration, ASan exact-size buffers",
    level_text="Generated-input search with an explicit three-valued reference codec and round "
               "trips; the port x capacity sub-space of xcm_addr_make_* is enumerated completely "
               "in the thorough tier. Absence of violations is evidence, not proof, outside "
               "that sub-space.",
    level_note="Trusts libc inet_pton/inet_ntop for IPv6 text and the harness' own reference "
               "parser of the documented grammar; leniencies no document forbids are not judged.",
    rule=("each case = up to 24 probes decoded from a rapidcheck-generated tape: "
          "xcm_addr_make_* (13 entry points, generated host/port, capacity chosen around the "
          "address length), ux/uxf make+parse, internal transport rewrites, and parser probes on "
          "strings built from the documented grammar, near-miss fragments, raw bytes and 0-3 "
          "mutations; all 8 typed parsers + compat parsers + is_valid/is_supported/parse_proto run "
          "on every string. Oracle: independent reference codec with verdict must-accept / "
          "must-reject / unspecified. Non-trivial = a make with capacity <= address length, a ux "
          "name over the limit, or a parser input the reference must reject for the address's own "
          "protocol. Distinct = FNV-1a of the plan. Plus (VF_EXHAUSTIVE) every port 0..65535 x "
          "every capacity 0..len+2 x 6 hosts x entry points."),
    assumptions=[
        "IPv6 text is judged by round trip through libc inet_pton/inet_ntop (trusted base)",
        "sign prefix / leading zeros in ports, empty DNS labels, trailing dot, digit-only names "
        "and whitespace in uxf paths are 'unspecified': counted, never judged",
        "DNS names given to make functions satisfy the library's documented name rule",
    ],
    quick=dict(workers=16, cases=400, maxsize=24,
               env={"VF_EXHAUSTIVE": "1", "VF_EXH_APIS": "2"}),
    thorough=dict(workers=16, cases=8000, maxsize=24,
                  env={"VF_EXHAUSTIVE": "1"}, fuzz=dict(workers=8, seconds=120, max_len=2048)),
)

DP_SOURCES = ["props/datapath.cc", "shim/shim.c", "pki/pki.cc"]

CHECKS["C01"] = dict(
    harness="datapath", sources=DP_SOURCES, variant="asan", env={"VF_PROP": "C01"},
    level="exploration", engine="rapidcheck + lower-layer shim + ASan/UBSan",
    technique="model-based property testing (rapidcheck plans, ledger reference model) with "
              "fault injection at the send()/recv() boundary",
    level_text="Generated interleavings of send/receive/finish/await on both ends of real "
               "connections of every messaging transport, with the kernel boundary scripted to "
               "split, shorten and refuse reads and writes; every receive is compared with the "
               "ledger of accepted sends. Sampled, not exhaustive.",
    level_text_extra="Shared data-path steps: a TLS handshake failing on another socket of the same thread; on tcp/btcp a "
                     "scripted hard failure of send() (ENOBUFS, ENOMEM, ECONNRESET, ETIMEDOUT) after which the "
                     "connection may be dead but a message whose xcm_send failed must never arrive; an orderly shutdown "
                     "(everything received, xcm_finish == 0, xcm_close) after which everything that side had "
                     "successfully sent must arrive; C03 also offers lengths beyond 32 bits.",
    level_note="Trusts the Linux loopback/AF_UNIX stack, OpenSSL, and the shim's soundness rules "
               "(only kernel-legal behaviours are injected).",
    rule=("plan = transport (ux, uxf, tcp, tls, utls via UX, utls client->tls server, tls "
          "client->utls server), small socket buffers or not, and up to 120 steps of "
          "send(len from boundary set or uniform 1..65535, PRF payload) / receive(capacity full "
          "or truncating) / finish / await+poll / shim script pushes (PASS(k) with k in "
          "{1,2,3,4,5,7,...}, EAGAIN bursts) / close, on either end; followed by flush+drain. "
          "Non-trivial = at least one message delivered AND (TCP-based: some read or write was "
          "split across calls or refused by injection, or a frame was pending when a send was "
          "refused, or a truncating receive was followed by another receive; UX: kernel "
          "back-pressure EAGAIN, injected EAGAIN or truncation-then-receive), measured from shim "
          "counters. Distinct = FNV-1a of the plan."),
    assumptions=["receive capacity 0 and messages of length 0 / > 65535 are outside C01's domain "
                 "(C03 covers the latter)",
                 "blocking-mode sides are exercised by the C04 harness"],
    quick=dict(workers=16, cases=250, maxsize=60),
    thorough=dict(workers=16, cases=5000, maxsize=120, fuzz=dict(workers=8, seconds=120)),
)

CHECKS["C17"] = dict(
    harness="datapath", sources=DP_SOURCES, variant="asan", env={"VF_PROP": "C17"},
    level="exploration", engine="rapidcheck + lower-layer shim + ASan/UBSan",
    technique="model-based property testing: counter attributes compared with the harness ledger "
              "after every step of generated traffic histories",
    level_text="All eight (four on byte streams) xcm.* counters are read on both endpoints after "
               "every step of generated histories on all nine transport configurations and "
               "compared with the ledger (exact equalities for from_app/to_app, inequalities, "
               "prefix sums for to_lower/from_lower, equality at quiescence). Sampled.",
    level_text_extra="Shared data-path steps: a TLS handshake failing on another socket of the same thread; on tcp/btcp a "
                     "scripted hard failure of send() (ENOBUFS, ENOMEM, ECONNRESET, ETIMEDOUT) after which the "
                     "connection may be dead but a message whose xcm_send failed must never arrive; an orderly shutdown "
                     "(everything received, xcm_finish == 0, xcm_close) after which everything that side had "
                     "successfully sent must arrive; C03 also offers lengths beyond 32 bits.",
    level_note="Trusts the ledger kept by the harness (what xcm_send accepted and xcm_receive "
               "returned) and the shim's soundness rules.",
    rule=("plans as in C01/C02 on all transports incl. btcp/btls, with truncating receives, "
          "refused sends and partial flushes; counters read on both ends after every step. "
          "Non-trivial = traffic was delivered AND the history contains a truncating receive, a "
          "refused send or I/O split across calls. Distinct = FNV-1a of the plan."),
    assumptions=["cross-transport identity is checked through the common ledger: every transport "
                 "must equal the same transport-independent expected values"],
    quick=dict(workers=16, cases=200, maxsize=60),
    thorough=dict(workers=16, cases=4000, maxsize=120, fuzz=dict(workers=8, seconds=120)),
)

CHECKS["C02"] = dict(
    harness="datapath", sources=DP_SOURCES, variant="asan", env={"VF_PROP": "C02"},
    level="exploration", engine="rapidcheck + lower-layer shim + ASan/UBSan",
    technique="model-based property testing (byte-stream ledger: prefix/equality) with short "
              "writes/reads and EAGAIN injected below XCM and below OpenSSL",
    level_text="Generated send/receive interleavings on btcp and btls with every xcm_send return "
               "value recorded; the received concatenation must at every receive be a prefix of "
               "the accepted concatenation and equal after flush. Sampled.",
    level_text_extra="Shared data-path steps: a TLS handshake failing on another socket of the same thread; on tcp/btcp a "
                     "scripted hard failure of send() (ENOBUFS, ENOMEM, ECONNRESET, ETIMEDOUT) after which the "
                     "connection may be dead but a message whose xcm_send failed must never arrive; an orderly shutdown "
                     "(everything received, xcm_finish == 0, xcm_close) after which everything that side had "
                     "successfully sent must arrive; C03 also offers lengths beyond 32 bits.",
    level_note="Trusts loopback TCP, OpenSSL record layer, shim soundness rules.",
    rule=("plan = btcp|btls, small buffers or not, up to 120 steps of send(len 1..200000)/"
          "receive(cap 1..70000)/finish/scripts/close. After a refused send the next buffer is "
          "whatever the next step says (same, longer, shorter or different bytes) except where a "
          "known finding is excluded. Non-trivial = bytes delivered AND (partial acceptance or "
          "refused send or split I/O)."),
    assumptions=["zero-length sends and capacity 0 are outside the domain"],
    quick=dict(workers=16, cases=200, maxsize=60),
    thorough=dict(workers=16, cases=4000, maxsize=120, fuzz=dict(workers=8, seconds=120)),
)

CHECKS["C03"] = dict(
    harness="datapath", sources=DP_SOURCES, variant="asan", env={"VF_PROP": "C03"},
    level="exploration", engine="rapidcheck + lower-layer shim (EAGAIN / EINTR injection) + ASan/UBSan",
    technique="model-based property testing with fault injection: refusals below XCM and EINTR "
              "injected into the blocking waits of xcm_send; ledger + counter no-trace oracle",
    level_text="Generated histories on all transports with sends of size 0, 1..max, max+1 and far "
               "larger, issued while frames are pending, refused by injected or real EAGAIN, and "
               "(blocking endpoints) interrupted by EINTR at the n-th internal wait; every failed "
               "send must leave counters untouched and never be delivered, re-sending must not "
               "duplicate, every accepted send must be delivered exactly once. Sampled.",
    level_text_extra="Shared data-path steps: a TLS handshake failing on another socket of the same thread; on tcp/btcp a "
                     "scripted hard failure of send() (ENOBUFS, ENOMEM, ECONNRESET, ETIMEDOUT) after which the "
                     "connection may be dead but a message whose xcm_send failed must never arrive; an orderly shutdown "
                     "(everything received, xcm_finish == 0, xcm_close) after which everything that side had "
                     "successfully sent must arrive; C03 also offers lengths beyond 32 bits.",
    level_note="EINTR is injected at the poll() boundary by the shim (what a signal handler "
               "without SA_RESTART produces); real signal delivery is not used.",
    rule=("plans as C01/C02 plus invalid sizes {0,65536,65537,1 MiB,32 MiB}, one endpoint possibly "
          "in blocking mode (its calls run in a worker thread while the peer is pumped), EINTR at "
          "the 1st..3rd blocking poll of a send, and an application re-send after a failed "
          "blocking send. Non-trivial = a send was refused while a frame was pending, or refused "
          "under split/injected I/O, or an injected EINTR actually interrupted a blocking send."),
    assumptions=["at most one endpoint of a pair is blocking at a time (each socket is independent "
                 "inside the library)"],
    quick=dict(workers=16, cases=200, maxsize=60),
    thorough=dict(workers=16, cases=4000, maxsize=120, fuzz=dict(workers=8, seconds=120)),
)

CHECKS["C19"] = dict(
    harness="C19_map", sources=["props/C19_map.cc"], variant="asan",
    level="exploration", engine="rapidcheck stateful model + ASan/UBSan",
    technique="stateful model-based property testing against std::map; parse/print round trip "
              "and grammar oracle for attribute paths",
    level_text="Generated operation sequences over four map slots compared with a reference "
               "dictionary after every operation (lookups, typed lookups, size, exists, foreach, "
               "equality both ways, clones, add_all incl. self), and generated path strings judged "
               "by a reference grammar plus round-trip laws, all under ASan with exact-size "
               "caller buffers. Sampled.",
    level_text_extra="Doubles include both zeros, infinities and NaNs with different payloads (byte-exact copies: a NaN "
                     "equals itself, the two zeros differ); before an equality check a key of one map may be put into "
                     "the other with one bit of its value changed (near miss).",
    level_note="Values passed back from the same key of the same map into add are excluded (the "
               "header says that pointer dies when the value changes). strtol leniencies inside "
               "[index] (sign, leading blanks) are unspecified.",
    rule=("up to 80 ops per case from {add (5 types, pool of colliding names + long/UTF-8 names, "
          "bin 0..1 MiB), typed adds, del, get, exists, clone i->j, add_all i->j (i=j too), "
          "equal, destroy, path probe}. Non-trivial = the sequence replaced an existing key and "
          "mutated a map after clone/add_all, or probed a path with an index component or one the "
          "grammar rejects. Distinct = FNV-1a of the plan."),
    assumptions=["attr_path functions are internal; linked directly like the repository's own unit tests do"],
    quick=dict(workers=16, cases=400, maxsize=80),
    thorough=dict(workers=16, cases=12000, maxsize=80, fuzz=dict(workers=8, seconds=120)),
)

CHECKS["C10"] = dict(
    harness="C10_attr", sources=["props/C10_attr.cc", "shim/shim.c", "pki/pki.cc"], variant="asan",
    level="exploration", engine="rapidcheck + ASan/UBSan exact-size buffers",
    technique="property-based testing: generated (socket state, attribute name, capacity / type / "
              "length / value) probes, differential against a big-buffer read, snapshot oracle "
              "for rejected sets, ASan red zones as write guard",
    level_text="For sockets of all nine transport configurations (server, client-side and accepted "
               "connections; established, closed by peer, held in connecting state by the shim) "
               "every get variant is probed with capacities around the value size into heap "
               "buffers of exactly that capacity, and xcm_attr_set with all types, fixed-size "
               "length violations and value classes; rejected sets must leave the attribute "
               "snapshot unchanged. Names come from xcm_attr_get_all, the documented universe, "
               "list/sub-key suffixes, 60-130 component paths, 200-600 char names and raw bytes. "
               "Sampled.",
    level_note="Kernel statistics (tcp.rtt, tcp.segs_*, tcp.total_retrans) are volatile: only "
               "size/type are compared. String values given to set are NUL-terminated within len "
               "(documented contract).",
    rule=("case = (transport, socket kind, state) + up to 60 probes. Non-trivial = a get with "
          "capacity < value size, a typed getter applied to an attribute of another type, or a set "
          "that was rejected on an existing attribute. Distinct = FNV-1a of the plan."),
    assumptions=["xcm.service written after creation returning 0 (no-op) is not judged here (see "
                 "DESIGN.md section 6)"],
    quick=dict(workers=16, cases=150, maxsize=60),
    thorough=dict(workers=16, cases=4000, maxsize=60, fuzz=dict(workers=8, seconds=120)),
)

CHECKS["C07"] = dict(
    harness="C07_wire", sources=["props/C07_wire.cc", "shim/shim.c", "pki/pki.cc"], variant="asan",
    level="exploration", engine="rapidcheck (structure-aware wire generator) + ASan/UBSan",
    technique="structure-aware fuzzing of the wire input with a reference frame decoder, EPROTO "
              "stickiness, TLS never-usable oracle and a heap-growth bound, under ASan/UBSan",
    level_text="A raw (non-XCM) TCP peer - for TLS an in-harness OpenSSL endpoint over memory BIOs "
               "whose wire bytes can be mutated, or plain garbage instead of a handshake - writes "
               "generated streams (valid frames, frames announcing 0 / 65536 / 2^31 / 2^32-1 / "
               "random lengths, truncated frames, raw garbage) in generated segmentations (1..5 "
               "byte dribbles included) to real XCM tcp/btcp/tls/btls connections on the accept "
               "and on the connect side, interleaved with receive/send/finish/attribute calls, "
               "ended by nothing, FIN or RST. Every result is judged against a reference decoder "
               "of what was written. Sampled.",
    level_note="Trusts the reference decoder (30 lines) and ASan's allocation statistics for the "
               "memory bound (1 MiB above the level at establishment, with streams up to 5 MiB "
               "written while the application does not drain).",
    rule=("case = transport x XCM role x TLS phase (genuine peer / garbage instead of handshake / "
          "one mutation at wire offset 0..2500) x up to 80 steps (append frame or garbage, peer "
          "writes a segment, XCM receive/send/finish/attr) x final FIN/RST/none. Non-trivial = the "
          "stream contains a frame with an illegal length, or a segment shorter than a header, or "
          "TLS garbage/mutation. Distinct = FNV-1a of the plan."),
    assumptions=["receive capacity 0 is outside the domain",
                 "for TLS garbage shorter than a record the connection may legitimately stay in "
                 "EAGAIN; only 'never usable, never delivers' is demanded there"],
    quick=dict(workers=16, cases=200, maxsize=80),
    thorough=dict(workers=16, cases=6000, maxsize=80, fuzz=dict(workers=8, seconds=120)),
)

CHECKS["C06"] = dict(
    harness="C06_term", sources=["props/C06_term.cc", "shim/shim.c", "pki/pki.cc"], variant="asan",
    level="fault_enumeration", engine="rapidcheck scenarios + complete fault enumeration per scenario (shim) + ASan/UBSan",
    technique="fault-injection enumeration over generated scenarios: every send()/recv() index of the "
              "scenario x every errno, peer death at generated wire offsets (byte budget below the "
              "peer), failed establishment; terminal-state-machine oracle over all later calls",
    level_text="For each generated traffic scenario on tcp/tls/btcp/btls/utls the fault-free run counts the "
               "send() and recv() calls of the endpoint under test (TLS handshake included); the scenario "
               "is then re-run once per (direction, call index, errno in ECONNRESET ETIMEDOUT EHOSTUNREACH "
               "ENETUNREACH EPIPE) with exactly that call failing - complete per scenario in the thorough tier (up to 400 indices per direction; the quick tier "
               "takes the first 8 and an even subsample of 40 per direction). Peer death: the peer (real XCM) may write c bytes "
               "(c around every header/payload boundary of its planned frames, or 0..3000 from the start "
               "of the TLS handshake) and then dies by FIN, close, flush+close or RST; on ux/uxf by close "
               "with and without unread data. Failed establishment: connect() or the connect status probe "
               "fails with each errno after 0..5 in-progress answers, or the port is really closed, "
               "blocking and non-blocking. Scenarios are sampled.",
    level_text_extra="Mode B, half of the cases: right after the peer's death the side under test does nothing but "
                     "receive, and xcm_receive alone has to report the death within 180 ms. Once a close has been "
                     "reported (receive returned 0, or a send/finish failed with EPIPE) every later receive must say 0.",
    level_note="The injected errno is returned by the interposed send()/recv()/connect()/SO_ERROR without "
               "touching the kernel; stickiness afterwards is XCM's own doing, which is what the property "
               "demands. After a real RST only membership in {ECONNRESET, EPIPE, (TLS) EPROTO} is demanded.",
    rule=("case = one scenario. Mode A (40%): transport x side under test x up to 24 steps "
          "(send/receive/finish on either end, fragmentation scripts) followed by a fixed tail of 7 calls; "
          "all (direction, index, errno) faults enumerated. Mode B (40%): scenario + byte budget + kind of "
          "death + position. Mode C (20%): establishment failure. Oracle: the call in which the fault "
          "occurs reports that errno (receive may report EPIPE as close); once a terminal condition "
          "(0 from receive, or an errno) has been reported no send/receive succeeds, and on TCP-based "
          "transports every later send/receive/finish reports the same errno (close <-> EPIPE, receive 0); "
          "a terminal report needs a cause; close is reported only after every completely arrived message; "
          "deliveries are a prefix of the ledger, never partial. Non-trivial = fault hit during the "
          "handshake, or with a frame pending, or first observed by send/finish/connect/accept; cut inside "
          "a frame or handshake, RST, or close with unread data; deferred or injected establishment failure."),
    assumptions=["non-blocking endpoints except in mode C",
                 "TLS peer vanishing without close_notify may be reported as EPROTO, ECONNRESET, EPIPE or close"],
    quick=dict(workers=16, cases=100, maxsize=24, env={"VF_C06_CAP": "40"}),
    thorough=dict(workers=16, cases=1200, maxsize=24, env={"VF_C06_CAP": "400"}, fuzz=dict(workers=8, seconds=120)),
)

EV_SOURCES = ["props/evloop.cc", "shim/shim.c", "pki/pki.cc", "stubs/ares_stub.c"]

CHECKS["C04"] = dict(
    harness="evloop", sources=EV_SOURCES, variant="asan", env={"VF_PROP": "C04"},
    level="exploration", engine="rapidcheck scheduler over protocol-abiding agents + shim + resolver stub + ASan/UBSan",
    technique="model-based property testing of the event-loop contract: generated schedules of agents that "
              "follow the documented await/poll/act protocol, with a global 'nothing is owed while nobody is "
              "readable' invariant (bounded-wait liveness) and watchdogged blocking calls",
    level_text="Three agents (connecting socket, server socket, accepted socket) follow the manual literally - "
               "xcm_await(condition), act only when xcm_fd is readable - under a generated scheduler, with "
               "speculative calls, messages enqueued at generated points, kernel I/O split/refused by the shim, "
               "connection set-up through literal addresses, a scripted resolver (answer at once / after 5-45 ms) "
               "or a delayed TCP handshake, on all nine transport configurations; one side may close mid-traffic. "
               "Whenever no descriptor is readable nothing may be owed (pending connection, undecided "
               "establishment, unflushed frame with writable kernel socket, unread kernel bytes, flushed but "
               "undelivered message, unseen close); otherwise a 2 s wait must wake somebody. A sixth of the "
               "cases run a blocking-mode client thread (connect, send, receive, close) against event-loop "
               "agents under a 10 s no-progress watchdog. Sampled; liveness is bounded-time.",
    level_note="'Eventually' is read as 2 s (event loops) / 10 s (blocking calls) on loopback, where delivery "
               "takes microseconds. The driver re-confirms a failing schedule three times.",
    rule=("case = transport x buffers x connection set-up x traffic intents x up to 300 scheduler steps "
          "(70% scheduled wake-ups, 10% speculative calls, 10% new messages, 8% shim scripts, 2% close). "
          "Non-trivial = at least one message delivered AND (I/O split or refused by injection, or kernel "
          "back-pressure, or resolution finished by a timer, or a wake-up had to come from the kernel/timer "
          "while something was owed), or a blocking-client case."),
    assumptions=["btls: data inside OpenSSL's write buffer is not observable; the flushed-but-undelivered rule is "
                 "applied to btcp and the messaging transports only"],
    quick=dict(workers=16, cases=100, maxsize=120),
    thorough=dict(workers=16, cases=1500, maxsize=300),
)

CHECKS["C16"] = dict(
    harness="evloop", sources=EV_SOURCES, variant="asan", env={"VF_PROP": "C16"},
    level="exploration", engine="rapidcheck scheduler over protocol-abiding agents + probes at quiescence",
    technique="property-based testing: generated event-loop histories driven to global quiescence, then "
              "quiet probes (descriptor must not be readable) and converse probes (must be readable at once), "
              "xcm_fd stability and POLLIN-only sampling",
    level_text="Histories as in C04 (all transports, partial I/O, refusals) are run until both ends are flushed "
               "and everything accepted is delivered; then on each end: condition 0 -> 5 samples over 16 ms "
               "must not be readable and never signal POLLOUT/POLLPRI/ERR/HUP; RECEIVABLE after an EAGAIN "
               "receive with an empty kernel queue -> not readable; SENDABLE on the idle connection -> readable "
               "at once; a message sent and known (FIONREAD) to be in the receiver's kernel -> still quiet "
               "under condition 0, readable at the first sample under RECEIVABLE; the server socket awaiting "
               "ACCEPTABLE with an empty queue -> quiet. xcm_fd is compared with its first value at every "
               "scheduler round. Sampled.",
    level_note="Quiet is sampled over a 16 ms window; a descriptor that becomes readable later without cause "
               "would be missed.",
    rule=("case as C04 without mid-traffic close. Non-trivial = messages were delivered under split or refused "
          "I/O (so bells / SSL pending state were exercised) before the probes ran."),
    assumptions=["the control interface is disabled (XCM_CTL points nowhere), as the property's quiescence requires"],
    quick=dict(workers=16, cases=60, maxsize=120),
    thorough=dict(workers=16, cases=1200, maxsize=300),
)

CHECKS["C05"] = dict(
    harness="evloop", sources=EV_SOURCES, variant="asan", env={"VF_PROP": "C05"},
    level="exploration", engine="rapidcheck API sequences + shim sleep monitor + resolver stub",
    technique="property-based testing with a monitor invariant: generated API call sequences on non-blocking "
              "sockets held in generated phases; the interposition shim flags any sleeping primitive or "
              "blocking-socket I/O issued inside a non-blocking XCM call",
    level_text="Two thirds of the cases hold a non-blocking connection in one phase - ready, name resolution "
               "pending (slow / silent resolver with dns.timeout), TCP handshake pending (40 in-progress "
               "answers), TLS handshake against a server that never accepts, back-pressured (peer not "
               "reading, small buffers), closed by peer - and issue up to 300 generated calls "
               "(send, receive, finish, await, fd, attribute get/get_all/set, accept on the server, remote_addr, "
               "close); the rest are the C04 event-loop histories. The shim reports poll/ppoll/select/"
               "epoll_wait with a non-zero timeout, nanosleep/usleep/sleep, and connect/accept/send/recv on a "
               "socket without O_NONBLOCK. Each call must also return within 1 s.",
    level_text_extra="One of the generated calls is xcm_set_blocking(true) with a signal pending (it may wait; EINTR is "
                     "injected into its first wait): having failed, it must leave a non-blocking socket. The resolver "
                     "stub presents a never-readable descriptor while a scripted query is pending (getsock / fds), as a "
                     "real resolver waiting for its server would.",
    level_note="Reads of regular files (credentials) are not sleeping primitives. xcm_server is not in the "
               "property's list of calls.",
    rule=("Non-trivial = the calls were issued in a phase other than 'ready'."),
    assumptions=["a DNS-named xcm.local_addr is excluded from the main campaign (recorded finding) and exercised "
                 "by a directed replay"],
    quick=dict(workers=16, cases=120, maxsize=120),
    thorough=dict(workers=16, cases=1200, maxsize=300),
)

CHECKS["C13"] = dict(
    harness="C13_connect", sources=["props/C13_connect.cc", "shim/shim.c", "pki/pki.cc", "stubs/ares_stub.c"], variant="asan",
    level="exploration", engine="rapidcheck + scripted resolver (c-ares entry points interposed) + listener pool + shim connect log + ASan (stack-use-after-return on)",
    technique="model-based property testing: generated resolver answers and accept/refuse/silent role maps, "
              "judged by a reference model of the single / sequential / happy-eyeballs algorithms "
              "(outcome, connected peer, order of connect() calls, errno, time bounds, source address)",
    level_text="Resolver answers of 1..44 addresses (127.0.0.x accepting, 127.0.1.x refusing, 127.0.2.x silent "
               "behind a full accept queue, ::1 with a per-case role), delivered at once, after 1-30 ms, as "
               "NOTFOUND, or never (dns.timeout 80-170 ms); the three dns.algorithm values; "
               "tcp.connect_timeout 50-240 ms; optional xcm.local_addr (port 0 or fixed); tcp, btcp, tls, "
               "btls, utls; non-blocking (driven by xcm_finish + poll) and, for tcp/btcp, blocking connect; "
               "xcm_server on resolvable and unresolvable names in a forked child under a 5 s watchdog. Sampled.",
    level_note="TLS transports are judged at TCP level (the listeners are raw sockets): established = the "
               "connection's descriptor has a peer. Time bounds are one-sided/wide: not earlier than the silent "
               "attempts' timeouts minus 12 ms, not later than 3x the model's time plus 2 s.",
    rule=("case = transport x algorithm x resolver behaviour x timeouts x local address x answer list "
          "(one step per address). Non-trivial = more than one address with more than one attempt, or both "
          "families, or more than 32 addresses, or a silent address, or resolver failure/silence, or the "
          "xcm_server probe on an unresolvable name."),
    assumptions=["only ::1 exists as IPv6 loopback address, so all IPv6 entries of an answer share one role per case",
                 "with xcm.local_addr the answer is IPv4-only (the local address must be bindable for every attempt)"],
    quick=dict(workers=16, cases=150, maxsize=44),
    thorough=dict(workers=16, cases=4000, maxsize=44, fuzz=dict(workers=8, seconds=120)),
)

CHECKS["C11"] = dict(
    harness="C11_effect", sources=["props/C11_effect.cc", "shim/shim.c", "pki/pki.cc", "stubs/ares_stub.c"], variant="asan",
    level="exploration", engine="rapidcheck + shim (delayed TCP handshake, descriptor identification) + resolver stub + kernel read-back",
    technique="model-based property testing: generated schedules of attribute writes over a socket's life, "
              "model = latest accepted value per attribute, compared with xcm_attr_get and with "
              "getsockopt()/getsockname() on the connection's kernel descriptor; inheritance and "
              "creation-only rules on server / accepted sockets",
    level_text="Writes of tcp.keepalive, tcp.keepalive_time/interval/count, tcp.user_timeout (admissible and "
               "out-of-range values), xcm.service, xcm.local_addr, dns.*, tcp.connect_timeout, tls.check_time are "
               "placed in the creation map, while the name is being resolved, while XCM still regards the TCP "
               "handshake as pending (0-11 delayed status probes), on the established connection and after the "
               "peer closed, on tcp/tls/btcp/btls/utls connecting sockets; after establishment SO_KEEPALIVE, "
               "TCP_KEEPIDLE/INTVL/CNT, TCP_USER_TIMEOUT and the source address are read back from the kernel "
               "descriptor. xcm.blocking=true with an unflushed message must flush like xcm_set_blocking. "
               "xcm_accept_a maps (TCP options, tls.check_time override) against server sockets with generated "
               "blocking mode / tls.check_time / tls.auth; xcm.service x every transport at creation. Sampled.",
    level_text_extra="The accept map may carry xcm.blocking (true or false, agreeing or not with the server socket's "
                     "mode); the accepted socket must be in that mode.",
    level_note="The kernel is trusted to report what was set. Blocking TLS accept is skipped (single-threaded).",
    rule=("case = one of: life of a connecting socket (70%), accept/inheritance (20%), service rules (10%). "
          "Non-trivial = a write was placed in the resolving or TCP-connecting phase, xcm.blocking was set with "
          "pending work, an accepted socket was checked, or a creation map / service combination was refused."),
    assumptions=["creation-only attributes are those the manual marks 'writable only at socket creation' / 'at the "
                 "time of the xcm_connect_a() call'"],
    quick=dict(workers=16, cases=600, maxsize=40),
    thorough=dict(workers=16, cases=20000, maxsize=40, fuzz=dict(workers=8, seconds=120)),
)

CHECKS["C08"] = dict(
    harness="C08_life", sources=["props/C08_life.cc", "shim/shim.c", "pki/pki.cc"], variant="asan",
    level="fault_enumeration", engine="rapidcheck API programs + complete single-fault enumeration and sampled fault pairs per program in forked children (shim) + ASan",
    technique="fault-injection enumeration: each generated API program is re-run once per resource-creating "
              "system call x plausible errno; invariants on the descriptor table, heap steady state, socket / "
              "control files, foreign-descriptor operations and process survival",
    level_text="Generated programs of up to 16 operations over six socket slots (server / connect / accept / "
               "send / receive / attribute listing / close / fork + xcm_cleanup in a child) on ux, uxf, tcp, tls, "
               "utls (UX and TLS leg), btcp, btls, with the control interface enabled in 3 of 4 programs. The "
               "fault-free run (5 repetitions) lists the calls to socket, accept4, epoll_create1, eventfd, "
               "timerfd_create, connect, bind, listen, fopen made inside XCM; then every one of them is made to "
               "fail, one per forked run of 3 repetitions, with each plausible errno (EMFILE, ENOBUFS/ENOMEM, "
               "ECONNABORTED, EAGAIN for accept4 (a wake-up with nothing to accept), ENETUNREACH, ECONNREFUSED, "
               "EADDRINUSE, EACCES, ENOENT): complete per program. Accepts on ux, uxf, tcp and btcp servers are "
               "made in blocking mode when a connection is waiting. On top, 24 fault pairs per program: one of "
               "the enumerated faults plus a second resource-creating call, 2..13 calls further into the run as "
               "it goes after the first fault, failing with an errno plausible for whichever call it lands on. "
               "Short plans are padded with steps derived from the configuration words so that programs reach "
               "accepted connections at small sizes. Programs and pairs are sampled.",
    level_note="Single faults complete per program; pairs sampled. Heap: strictly positive, equal growth over three "
               "consecutive repetitions counts as a leak; LeakSanitizer is not used in the children.",
    rule=("case = one program + all its single faults. After every repetition: /proc/self/fd (numbers and "
          "kinds) equals the start table, no file is left in the UXF or control directories, no close()/"
          "epoll_ctl() inside XCM hit a descriptor XCM did not create, a failing call returned NULL/-1 with "
          "errno set; the child did not die of a signal or hang; after fork + xcm_cleanup in a child the "
          "owner's files exist, its established connections still deliver and the peer saw no close. "
          "Non-trivial = a fault hit after the same API call had already created a resource (an unwind "
          "ladder ran), or the program contained fork + cleanup."),
    assumptions=["control-interface creation failing silently (socket still returned) is by design"],
    quick=dict(workers=16, cases=8, maxsize=15, env={"VF_C08_CAP": "150"}),
    thorough=dict(workers=16, cases=40, maxsize=15),
)

CHECKS["C20"] = dict(
    harness="C20_relay", sources=["props/C20_relay.cc", "shim/shim.c", "pki/pki.cc"], variant="asan",
    prebuild=[("VF_RELAY_EXE", "build_relay_asan")],
    trust_unconfirmed=r"relay process exited \(status 0x(b|6|8|4|86|8b|84|6300)\)",
    level="exploration", engine="rapidcheck plans + the real xcmrelay built from the tree, run as a child process between harness endpoints",
    technique="model-based property testing at process level: generated bidirectional traffic, bursts up to "
              "back-pressure, pauses and closes through the real relay; end-to-end ledger oracle, close "
              "ordering and bounded-time liveness",
    level_text="The relay (tools/xcmrelay built from the working tree, linked with the tree's libxcm) runs between "
               "1-3 harness client connections and a harness server, for every pair of messaging transports "
               "(ux, uxf, tcp, tls, utls x same) and of byte-stream transports (btcp, btls x same). Steps: "
               "sends of 1..65535 bytes (up to 200 kB on byte streams) in both directions, bursts of up to 400 "
               "sends (every third one tiny) until the sender is refused while the other side does not read, "
               "receives, finishes, closes (after the closer's own socket has finished), a new client connection "
               "taking the place of one whose two ends are closed, and the server not listening for a moment "
               "while one more client connects (that client cannot be served; the relay has to stay up for the "
               "others). A relay process of its own per case, so that what the relay carries over from one "
               "connection to the next is part of the plan; client and server-side connection are paired by the "
               "first message. Everything successfully sent must arrive "
               "unmodified, in order, once; a close is seen only after it; the relay must stay alive and move "
               "data again once the paused side reads (10 s without progress = stall). Sampled.",
    level_note="The relay's own sockets are in another process and are not fault-injected; back-pressure is produced "
               "by volume (kernel buffers). Liveness is a 10 s bound; the driver re-confirms three times.",
    rule=("case = transport pair x 1-3 connections x up to 60 steps. Non-trivial = traffic in both directions on a "
          "connection AND (a burst that ended in back-pressure, or a close issued while the closer's data was "
          "still in flight, or a connection re-opened after a close)."),
    assumptions=["a side that closes first lets its own socket finish (xcm_finish == 0), as C03 requires of senders"],
    quick=dict(workers=16, cases=60, maxsize=60),
    thorough=dict(workers=16, cases=2000, maxsize=60),
)

CHECKS["C14"] = dict(
    harness="C14_ctl", sources=["props/C14_ctl.cc", "shim/shim.c", "pki/pki.cc"], variant="asan", libs=("xcm", "xcmctl"),
    level="exploration", engine="rapidcheck session interleaver: raw AF_UNIX SEQPACKET clients + the real libxcmctl client (thread) against owners in the harness process, ASan/UBSan",
    technique="protocol fuzzing with a differential oracle: generated well-formed and malformed control-interface "
              "datagrams over 1-4 interleaved sessions; replies compared with in-process xcm_attr_get / "
              "xcm_attr_get_all, key-secrecy scan of every reply byte, C01 ledger on the owner's data path, "
              "control-file clean-up, C05 sleep monitor",
    level_text="Owners: ux / tcp / btcp connections, a tls connection with by-value credentials, a tls accepted "
               "connection whose peer certificate carries 3x3, 3x14 or 3x40 subject alternative names (so up to "
               "~150 attributes), tls server sockets (one with 30 long tls.peer_names). Up to four sessions send "
               "get-attr for the owner's real names and for tls.key / unknown / over-indexed / malformed names, "
               "get-all (also as first request), datagrams of 1, 4, 63, 64, 68, size-1, size+1, 1000 and 65536 "
               "bytes, full-size datagrams without any NUL (unterminated name) or with unknown type, disconnects "
               "with replies outstanding, unread replies; libxcmctl sessions (xcmc_open / xcmc_attr_get / "
               "xcmc_attr_get_all) run in a helper thread. Traffic on the owner's connection is interleaved and "
               "ledger-checked. Sampled.",
    level_note="Kernel statistics and traffic counters are compared by type only. A reply that cannot be matched "
               "to a request (session saw a malformed datagram) is scanned for key material but not judged.",
    rule=("Non-trivial = a session with a malformed datagram, or get-all as the first request of a session, or a "
          "disconnect with replies outstanding, or an owner with at least 60 attributes or a value longer than 512 bytes."),
    assumptions=["the owner application keeps calling its sockets (that is what serves the control interface)"],
    quick=dict(workers=16, cases=60, maxsize=60),
    thorough=dict(workers=16, cases=3000, maxsize=60, fuzz=dict(workers=8, seconds=120)),
)

CHECKS["C09"] = dict(
    harness="C09_tls", sources=["props/C09_tls.cc", "shim/shim.c", "pki/pki.cc"], variant="asan",
    level="exploration", engine="rapidcheck cells of the policy x credential matrix + in-process PKI factory (libcrypto), oracle on generation metadata",
    technique="combinatorial property testing: generated (client policy, server policy, accept-time override, "
              "credentials, trust store, CRL set, delivery form) cells; fail-closed oracle evaluated on the "
              "generated certificates' metadata, plus a not-fail-always oracle for definitely valid cells",
    level_text="Per cell: tls.auth / tls.check_time / tls.check_crl / tls.verify_peer_name each unset, true or false "
               "and tls.peer_names unset, matching or non-matching on the connecting socket, on the server socket "
               "and (a third of the cells) in xcm_accept_a; each side presents one of: valid leaf, leaf via an "
               "intermediate (bundle), leaf under an untrusted root, expired, not yet valid, revoked leaf, leaf "
               "under a revoked intermediate, serverAuth-only, clientAuth-only, leaf under an expired "
               "intermediate; trust store {A}, {B}, {A,B} or {intermediate}; CRLs complete, missing for the "
               "intermediate, expired, or with zero revocations; by file or by value; tls, btls, utls->tls. "
               "Both sides run finish/send/receive to completion. Sampled (a quarter of the cells are steered "
               "into the definitely-valid class).",
    level_text_extra="In half of the cells a lenient socket made from the same material is created first and kept alive "
                     "(an xcm_accept_a on the same server socket overriding tls.check_time=false, or a connect-side "
                     "socket configured like the judged client but with tls.check_time=false): policies are per socket "
                     "although cached TLS contexts are shared.",
    level_note="Only facts generated by the harness are judged (no name constraints, policies, path lengths). "
               "TLS 1.3 lets a client become usable before the server has judged it: the oracle is per side.",
    rule=("Non-trivial = at least one side's policy is definitely not met, or an accept-time override changed the "
          "effective policy. Inconsistent combinations (CRL checking or name verification without "
          "authentication, names without verification, name verification on an accepted socket without names) "
          "must be refused with EINVAL at creation."),
    assumptions=["tls.client is left at its default (the connecting side is the TLS client)"],
    quick=dict(workers=16, cases=150, maxsize=40),
    thorough=dict(workers=16, cases=8000, maxsize=40, fuzz=dict(workers=8, seconds=120)),
)

CHECKS["C18"] = dict(
    harness="C18_creds", sources=["props/C18_creds.cc", "shim/shim.c", "pki/pki.cc"], variant="asan",
    level="exploration", engine="rapidcheck histories over a certificate directory tree / environment / attributes + PKI factory; SSL_CTX_new/free interposed",
    technique="model-based property testing: generated histories of credential updates (rename-over, in-place "
              "rewrite with equal size, symlink flip, XCM_TLS_CERT switch, by-file / by-value attribute overrides, "
              "split by-value texts, setns(2) between the initial and a named network namespace) interleaved "
              "with connection set-up and tear-down on client-side and server-side subjects (kept server sockets, "
              "xcm_accept_a overrides); the model records the material designated at each creating call; observed "
              "through the certificate the other end sees, through trust probes and through CRL probes",
    level_text="Four credential sets (own leaf and root each; trust store = one of two observer issuers), three "
               "directories plus a symbolic link flipped between two of them, the XCM_TLS_CERT variable. Steps: "
               "write a set with fresh inodes, rewrite in place (same inode, same padded size; optionally "
               "restoring the mtime), flip the link, switch the variable, create a connection whose certificate "
               "/ key / trust store each come from the environment directory, a *_file attribute or a by-value "
               "attribute, probe an older connection, close, break the material (missing file, garbage, "
               "mismatching key, directory instead of file, missing trust file), and pairs of by-value "
               "configurations whose texts concatenate identically but split differently. The other end reads "
               "tls.peer.cert.subject.cn; the trust store in force is probed by connecting to an observer whose "
               "issuer is / is not in the designated store. After the last close the number of live SSL_CTX "
               "objects must be back to the level at the start of the case. Subjects are clients (xcm_connect_a) "
               "or connections accepted from a server socket made at that moment or earlier in the history (the "
               "server's designation - directory and namespace naming as they stood at xcm_server_a, or attributes "
               "- read as the files stand at the accept call, unless xcm_accept_a overrides certificate/key by "
               "file or by value or the trust store by value). Every directory carries both the <item>.pem and the "
               "<item>_<ns>.pem files; the history thread moves between the initial and a named network namespace "
               "(ip netns add, setns) and observers exist in both. With tls.check_crl the CRL comes from the "
               "directory, tls.crl_file or tls.crl, and either revokes the observer or nobody. Broken material "
               "also covers key/certificate of different algorithms and a garbage CRL. Each case and each replay "
               "begins with a prelude connection from a directory of its own, so process-wide remembered state is "
               "part of every history. Sampled.",
    level_note="One history thread (C15 covers threads). Without the privilege to create a network namespace "
               "(ip netns add fails) the namespace steps are skipped; the class counts in the evidence show "
               "whether they ran.",
    rule=("Non-trivial = a connection was created after an update while an older socket using the previous "
          "material was still open (so a cache entry for the old material exists), or a split by-value pair."),
    assumptions=["credential files are padded to equal length so that in-place rewrites keep the size",
                 "an accepted connection is designated the files its server socket named (at xcm_server_a) as "
                 "they stand when xcm_accept_a is called - the reading of 'designated when the call is made' that "
                 "xcm.h and xcm:tls_detect_changes_to_cert_files support",
                 "root with CAP_SYS_ADMIN and iproute2 for the namespace steps (the pinned suite needs the same)"],
    quick=dict(workers=16, cases=60, maxsize=40),
    thorough=dict(workers=16, cases=3000, maxsize=40, fuzz=dict(workers=8, seconds=120)),
)

CHECKS["C15"] = dict(
    harness="C15_threads", sources=["props/C15_threads.cc", "shim/shim_stub.c", "pki/pki.cc"], variant="tsan",
    trust_unconfirmed=r"ThreadSanitizer|socket ids are not unique",
    level="exploration", engine="ThreadSanitizer build of library + harness; rapidcheck-generated multi-thread workloads",
    technique="concurrency fuzzing with a happens-before race detector as oracle: generated per-thread workloads on "
              "distinct sockets (plus synchronised hand-over), ThreadSanitizer reports, per-thread data "
              "integrity, socket-id uniqueness and resource accounting",
    level_text="2-6 threads, each with its own servers and connections over ux, uxf, tcp, tls, utls, btcp, btls; "
               "TLS credentials by value from three shared sets or from the XCM_TLS_CERT files, so threads hit and "
               "miss the context cache concurrently; bursts of 5-29 connections (several threads together exceed "
               "the 100 users of one shared eventfd); ledger-checked messages; attribute listing; closes, "
               "including closing everything (pools torn down and rebuilt); hand-over of connections through a "
               "mutex-protected queue. All threads start at a barrier; generated yields. At a final barrier the "
               "number of control sockets must equal the number of open sockets (unique ids); afterwards "
               "descriptors and control files are back to the start level. One case in three begins with a first-use "
               "probe: the harness binary is exec'ed afresh and 2-4 threads create that process's very first "
               "sockets (tls / btls / utls servers, a tls connect, tcp, ux) at the same moment, under "
               "ThreadSanitizer - whatever the library initialises lazily is initialised under contention. "
               "Schedules are perturbed, not owned: silence is weak evidence.",
    level_note="A ThreadSanitizer report is taken as a violation without the usual three-fold replay (races are "
               "schedule-dependent; the detector does not depend on the race actually manifesting). Reports "
               "entirely inside libssl/libcrypto/libcares are suppressed.",
    rule=("case = thread count + up to 400 steps dealt round-robin to the threads. Non-trivial = at least 8 "
          "connections were created by at least 2 threads running concurrently."),
    assumptions=["no two threads ever use the same socket at the same time (hand-over goes through a mutex)"],
    quick=dict(workers=8, cases=12, maxsize=400),
    thorough=dict(workers=8, cases=120, maxsize=400),
)

NOT_APPLICABLE = []
