"""Per-property configuration of the driver."""

CHECKS = {}

CHECKS["C12"] = dict(
    harness="C12_addr", sources=["props/C12_addr.cc"], variant="asan",
    level="exploration", engine="rapidcheck + exhaustive loops + ASan/UBSan",
    exhaustive_claim=True,
    technique="property-based testing (rapidcheck) against a reference codec + exhaustive "
              "port x capacity enumeration, ASan exact-size buffers",
    level_text="Generated-input search with an explicit three-valued reference codec and round "
               "trips; the port x capacity sub-space of xcm_addr_make_* is enumerated completely "
               "in the thorough tier. Absence of violations is evidence, not proof, outside "
               "that sub-space.",
    level_note="Trusts libc inet_pton/inet_ntop for IPv6 text and the harness' own reference "
               "parser of the documented grammar; leniencies no document forbids are not judged.",
    rule=("each case = up to 24 probes decoded from a rapidcheck-generated tape: "
          "xcm_addr_make_* (13 entry points, generated host/port, capacity chosen around the "
          "address length), ux/uxf make+parse, internal transport rewrites, and parser probes on "
          "strings built from the documented grammar, near-miss fragments, raw bytes and 0-3 "
          "mutations; all 8 typed parsers + compat parsers + is_valid/is_supported/parse_proto run "
          "on every string. Oracle: independent reference codec with verdict must-accept / "
          "must-reject / unspecified. Non-trivial = a make with capacity <= address length, a ux "
          "name over the limit, or a parser input the reference must reject for the address's own "
          "protocol. Distinct = FNV-1a of the plan. Plus (VF_EXHAUSTIVE) every port 0..65535 x "
          "every capacity 0..len+2 x 6 hosts x entry points."),
    assumptions=[
        "IPv6 text is judged by round trip through libc inet_pton/inet_ntop (trusted base)",
        "sign prefix / leading zeros in ports, empty DNS labels, trailing dot, digit-only names "
        "and whitespace in uxf paths are 'unspecified': counted, never judged",
        "DNS names given to make functions satisfy the library's documented name rule",
    ],
    quick=dict(workers=16, cases=400, maxsize=24,
               env={"VF_EXHAUSTIVE": "1", "VF_EXH_APIS": "2"}),
    thorough=dict(workers=16, cases=8000, maxsize=24,
                  env={"VF_EXHAUSTIVE": "1"}),
)

NOT_APPLICABLE = []
