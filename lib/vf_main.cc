// vf_main: rapidcheck driver + replay + statistics for one harness.
//
//   <exe> --replay FILE         run one plan, print trace; exit 0 ok, 3 failed
//   <exe>                       rapidcheck campaign, configured through env:
//        VF_SEED VF_CASES VF_MAXSIZE   (-> RC_PARAMS)
//        VF_OUT      prefix for <prefix>.stats.json / .current / .failing
//        VF_EXCLUDE  known-finding signatures the generator must avoid
//        VF_SHRINK_BUDGET   max evaluations spent shrinking (default 1500)
//   exit 0 = all cases passed, 3 = property falsified (plan in .failing)
#include "vf.h"

#include <rapidcheck.h>

#include <fstream>
#include <sstream>
#include <sys/stat.h>
#include <time.h>
#include <unistd.h>

extern "C" void __sanitizer_print_memory_profile(size_t top_percent, size_t max_number_of_contexts) __attribute__((weak));

namespace vf {

std::string plan_to_text(const Plan &p)
{
    std::ostringstream o;
    o << "vfplan 1\n";
    o << "cfg";
    for (auto v : p.cfg) o << ' ' << v;
    o << "\n";
    for (auto &s : p.steps) {
        o << "step";
        for (auto v : s) o << ' ' << v;
        o << "\n";
    }
    o << "end\n";
    return o.str();
}

bool plan_from_text(const std::string &s, Plan &p)
{
    std::istringstream in(s);
    std::string line;
    p = Plan();
    bool seen = false;
    while (std::getline(in, line)) {
        if (line.empty() || line[0] == '#') continue;
        std::istringstream ls(line);
        std::string kw;
        ls >> kw;
        if (kw == "vfplan") { seen = true; continue; }
        if (kw == "end") break;
        std::vector<uint32_t> v;
        unsigned long long x;
        while (ls >> x) v.push_back((uint32_t)x);
        if (kw == "cfg") p.cfg = v;
        else if (kw == "step") p.steps.push_back(v);
        else return false;
    }
    return seen;
}

uint64_t fnv1a(const void *data, size_t len, uint64_t h)
{
    const uint8_t *b = (const uint8_t *)data;
    for (size_t i = 0; i < len; i++) { h ^= b[i]; h *= 1099511628211ULL; }
    return h;
}

uint64_t plan_hash(const Plan &p)
{
    uint64_t h = fnv1a(p.cfg.data(), p.cfg.size() * 4);
    for (auto &s : p.steps) {
        h = fnv1a("|", 1, h);
        h = fnv1a(s.data(), s.size() * 4, h);
    }
    return h;
}

void prf_fill(uint32_t tag, uint8_t *buf, size_t len, size_t off)
{
    for (size_t i = 0; i < len; i++) buf[i] = prf_byte(tag, (uint32_t)(off + i));
}

uint32_t mix32(uint32_t a, uint32_t b)
{
    uint64_t x = ((uint64_t)a << 32) | b;
    x ^= x >> 33; x *= 0xff51afd7ed558ccdULL; x ^= x >> 33;
    x *= 0xc4ceb9fe1a85ec53ULL; x ^= x >> 33;
    return (uint32_t)x;
}

void Case::log(const char *fmt, ...)
{
    if (!trace_on || trace.size() > 200000) return;
    char buf[1024];
    va_list ap;
    va_start(ap, fmt);
    vsnprintf(buf, sizeof(buf), fmt, ap);
    va_end(ap);
    trace += buf;
    trace += '\n';
}

Outcome failf(const char *fmt, ...)
{
    char buf[2048];
    va_list ap;
    va_start(ap, fmt);
    vsnprintf(buf, sizeof(buf), fmt, ap);
    va_end(ap);
    return Outcome::fail(buf);
}

static std::map<std::string, uint64_t> g_counters;
void count(const std::string &key, uint64_t n) { g_counters[key] += n; }

static std::set<std::string> g_excl;
static bool g_excl_init = false;
bool excluded(const char *sig)
{
    if (!g_excl_init) {
        g_excl_init = true;
        const char *e = getenv("VF_EXCLUDE");
        if (e) {
            std::istringstream in(e);
            std::string tok;
            while (std::getline(in, tok, ','))
                if (!tok.empty()) g_excl.insert(tok);
        }
    }
    return g_excl.count(sig) > 0;
}
void count_exclusion(const char *sig) { count(std::string("excluded:") + sig); }

std::string hex(const void *p, size_t n, size_t max)
{
    static const char *d = "0123456789abcdef";
    std::string s;
    const uint8_t *b = (const uint8_t *)p;
    for (size_t i = 0; i < n && i < max; i++) { s += d[b[i] >> 4]; s += d[b[i] & 15]; }
    if (n > max) s += "..";
    return s;
}

std::string tmpdir()
{
    static std::string d;
    if (d.empty()) {
        const char *r = getenv("VF_RUNDIR");
        std::string base = r ? r : "/verif/build/run";
        mkdir(base.c_str(), 0755);
        d = base + "/p" + std::to_string(getpid());
        // process ids are reused: whatever an earlier process of the same id left behind
        // (socket files!) must not be met again
        std::string rm = "rm -rf '" + d + "'";
        if (system(rm.c_str()) != 0) {}
        mkdir(d.c_str(), 0755);
    }
    return d;
}

const char *errname(int e)
{
    switch (e) {
    case 0: return "0";
#define E(x) case x: return #x;
    E(EAGAIN) E(EPIPE) E(ECONNRESET) E(ETIMEDOUT) E(EHOSTUNREACH) E(ENETUNREACH)
    E(ECONNREFUSED) E(EPROTO) E(EINVAL) E(EMSGSIZE) E(EINTR) E(ENOENT) E(EACCES)
    E(EOVERFLOW) E(ENAMETOOLONG) E(EMFILE) E(ENFILE) E(ENOMEM) E(ENOBUFS)
    E(EADDRINUSE) E(EADDRNOTAVAIL) E(ECONNABORTED) E(EINPROGRESS) E(ENOTCONN)
    E(EBADF) E(EISDIR) E(ENOTSUP) E(EPROTONOSUPPORT) E(EEXIST) E(ENOTSOCK)
#undef E
    default: {
        static __thread char buf[32];
        snprintf(buf, sizeof(buf), "errno%d", e);
        return buf;
    }
    }
}

void showValue(const Plan &p, std::ostream &os) { os << plan_to_text(p); }

} // namespace vf

using namespace vf;

static std::string json_escape(const std::string &s)
{
    std::string o;
    for (unsigned char c : s) {
        switch (c) {
        case '"': o += "\\\""; break;
        case '\\': o += "\\\\"; break;
        case '\n': o += "\\n"; break;
        case '\t': o += "\\t"; break;
        case '\r': o += "\\r"; break;
        default:
            if (c < 0x20 || c >= 0x7f) {
                char b[8];
                snprintf(b, sizeof(b), "\\u%04x", c);
                o += b;
            } else
                o += (char)c;
        }
    }
    return o;
}

struct Stats {
    uint64_t evaluations = 0, shrink_evaluations = 0, nontrivial = 0;
    std::set<uint64_t> nt_hashes;
    std::map<std::string, uint64_t> classes;
    std::vector<std::pair<std::string, std::string>> samples; // plan, trace
    std::set<std::string> sampled_classes;
    bool failed = false;
    std::string fail_msg, fail_trace;
};

static void write_file(const std::string &path, const std::string &content)
{
    std::string tmp = path + ".tmp";
    {
        std::ofstream f(tmp, std::ios::binary);
        f << content;
    }
    rename(tmp.c_str(), path.c_str());
}

static void write_stats(const std::string &path, Harness *h, const Stats &st)
{
    std::ostringstream o;
    o << "{\"property\":\"" << h->property() << "\",";
    o << "\"evaluations\":" << st.evaluations << ",";
    o << "\"shrink_evaluations\":" << st.shrink_evaluations << ",";
    o << "\"nontrivial\":" << st.nontrivial << ",";
    o << "\"nt_hashes\":[";
    bool first = true;
    for (auto x : st.nt_hashes) { o << (first ? "" : ",") << "\"" << x << "\""; first = false; }
    o << "],\"classes\":{";
    first = true;
    for (auto &kv : st.classes) {
        o << (first ? "" : ",") << "\"" << json_escape(kv.first) << "\":" << kv.second;
        first = false;
    }
    o << "},\"counters\":{";
    first = true;
    for (auto &kv : g_counters) {
        o << (first ? "" : ",") << "\"" << json_escape(kv.first) << "\":" << kv.second;
        first = false;
    }
    o << "},\"samples\":[";
    first = true;
    for (auto &s : st.samples) {
        o << (first ? "" : ",") << "{\"plan\":\"" << json_escape(s.first)
          << "\",\"trace\":\"" << json_escape(s.second) << "\"}";
        first = false;
    }
    o << "],\"failed\":" << (st.failed ? "true" : "false");
    o << ",\"fail_msg\":\"" << json_escape(st.fail_msg) << "\"";
    o << ",\"fail_trace\":\"" << json_escape(st.fail_trace.substr(0, 6000)) << "\"}";
    write_file(path, o.str());
}

static std::string read_file(const char *path)
{
    std::ifstream f(path, std::ios::binary);
    std::ostringstream o;
    o << f.rdbuf();
    return o.str();
}

#ifdef VF_FUZZ
// ---- libFuzzer front end: the input bytes are the plan tape itself (little-endian 32-bit words:
// cfg_len() configuration words, then steps of step_len() words; what is missing reads as 0), so the
// coverage-guided mutator works on exactly the choices the rapidcheck generator draws.  The oracle
// is the harness's; a failing plan is written as <VF_OUT>.failing (vfplan text, the replay format)
// before the process traps.
static Harness *fz_h;
static std::string fz_prefix;
static Stats fz_st;

static void fz_flush() { if (fz_h) write_stats(fz_prefix + ".stats.json", fz_h, fz_st); }
static void fz_exit() { fz_flush(); if (fz_h) fz_h->teardown(); }

extern "C" int LLVMFuzzerInitialize(int *, char ***)
{
    setvbuf(stdout, NULL, _IOLBF, 0);
    fz_h = make_harness();
    const char *out = getenv("VF_OUT");
    fz_prefix = out ? out : (tmpdir() + "/fuzz");
    fz_h->setup();
    atexit(fz_exit);
    return 0;
}

extern "C" int LLVMFuzzerTestOneInput(const uint8_t *data, size_t size)
{
    const size_t NC = fz_h->cfg_len(), K = fz_h->step_len(), MAXS = fz_h->max_steps();
    auto word = [&](size_t idx) -> uint32_t {
        uint32_t v = 0;
        for (size_t b = 0; b < 4; b++) { size_t o = idx * 4 + b; if (o < size) v |= (uint32_t)data[o] << (8 * b); }
        return v;
    };
    Plan p;
    size_t nwords = (size + 3) / 4;
    for (size_t i = 0; i < NC; i++) p.cfg.push_back(word(i));
    for (size_t w = NC; w < nwords && p.steps.size() < MAXS; w += K) {
        std::vector<uint32_t> st;
        for (size_t j = 0; j < K; j++) st.push_back(word(w + j));
        p.steps.push_back(st);
    }
    Case c;
    Outcome o = fz_h->run(p, c);
    fz_st.evaluations++;
    for (auto &cl : c.classes) fz_st.classes[cl]++;
    if (c.nontrivial) { fz_st.nontrivial++; if (fz_st.nt_hashes.size() < 200000) fz_st.nt_hashes.insert(plan_hash(p)); }
    bool want = c.nontrivial && fz_st.samples.size() < 2;
    for (auto &cl : c.classes) if (!fz_st.sampled_classes.count(cl) && fz_st.samples.size() < 6) want = true;
    if (want) { for (auto &cl : c.classes) fz_st.sampled_classes.insert(cl); fz_st.samples.push_back({plan_to_text(p), c.trace.substr(0, 1500)}); }
    if ((fz_st.evaluations & 1023) == 0) fz_flush();
    if (!o.ok) {
        fz_st.failed = true;
        fz_st.fail_msg = o.msg;
        fz_st.fail_trace = c.trace;
        write_file(fz_prefix + ".failing", plan_to_text(p) + "# " + o.msg + "\n");
        fz_flush();
        printf("FAILED: %s\n", o.msg.c_str());
        fflush(stdout);
        __builtin_trap();
    }
    return 0;
}
#else
int main(int argc, char **argv)
{
    setvbuf(stdout, NULL, _IOLBF, 0);
    static Harness *h;
    h = make_harness();
    const char *replay = nullptr;
    for (int i = 1; i < argc; i++)
        if (!strcmp(argv[i], "--replay") && i + 1 < argc) replay = argv[++i];

    if (replay) {
        Plan p;
        std::string rtext = read_file(replay);
        if (rtext.compare(0, 5, "vfexh") == 0) {
            // failure of the exhaustive part: re-run that worker's slice
            long w = 0, W = 1;
            sscanf(rtext.c_str(), "vfexh %ld %ld", &w, &W);
            setenv("VF_WORKER", std::to_string(w).c_str(), 1);
            setenv("VF_WORKERS", std::to_string(W).c_str(), 1);
            std::string rep, fail;
            h->setup();
            int rc = vf_exhaustive ? vf_exhaustive(rep, fail) : 0;
            if (rc) { printf("FAILED: %s\n", fail.c_str()); return 3; }
            printf("PASSED\n");
            return 0;
        }
        if (!plan_from_text(rtext, p)) {
            fprintf(stderr, "cannot parse plan %s\n", replay);
            return 2;
        }
        h->setup();
        Case c;
        Outcome o = h->run(p, c);
        printf("%s", c.trace.c_str());
        printf("nontrivial=%d\n", (int)c.nontrivial);
        h->teardown();
        if (!o.ok) {
            printf("FAILED: %s\n", o.msg.c_str());
            return 3;
        }
        printf("PASSED\n");
        return 0;
    }

    const char *out = getenv("VF_OUT");
    std::string prefix = out ? out : (tmpdir() + "/run");
    long seed = getenv("VF_SEED") ? atol(getenv("VF_SEED")) : 1;
    long cases = getenv("VF_CASES") ? atol(getenv("VF_CASES")) : 100;
    long maxsize = getenv("VF_MAXSIZE") ? atol(getenv("VF_MAXSIZE")) : (long)h->max_steps();
    long shrink_budget = getenv("VF_SHRINK_BUDGET") ? atol(getenv("VF_SHRINK_BUDGET")) : 1500;
    if (maxsize < 1) maxsize = 1;
    if (!getenv("RC_PARAMS")) {
        char buf[256];
        snprintf(buf, sizeof(buf), "seed=%ld max_success=%ld max_size=%ld", seed,
                 cases, maxsize);
        setenv("RC_PARAMS", buf, 1);
    }

    h->setup();
    Stats st;
    time_t first_fail_at = 0;
    long shrink_seconds = getenv("VF_SHRINK_SECONDS") ? atol(getenv("VF_SHRINK_SECONDS")) : 45;
    if (getenv("VF_EXHAUSTIVE") && vf_exhaustive) {
        std::string rep, fail;
        if (vf_exhaustive(rep, fail) != 0) {
            st.failed = true;
            st.fail_msg = fail;
            write_file(prefix + ".failing",
                       std::string("vfexh ") + (getenv("VF_WORKER") ? getenv("VF_WORKER") : "0") +
                           " " + (getenv("VF_WORKERS") ? getenv("VF_WORKERS") : "1") + "\n# " + fail + "\n");
            write_stats(prefix + ".stats.json", h, st);
            return 3;
        }
        g_counters["exhaustive_done"] = 1;
    }
    const size_t NC = h->cfg_len(), K = h->step_len(), MAXS = h->max_steps();
    auto elem = rc::gen::scale(100.0 / (double)maxsize, rc::gen::arbitrary<uint32_t>());
    auto genStep = rc::gen::container<std::vector<uint32_t>>(K, elem);
    auto genCfg = rc::gen::container<std::vector<uint32_t>>(NC, elem);
    auto genSteps = rc::gen::container<std::vector<std::vector<uint32_t>>>(genStep);
    auto genPlan = rc::gen::build<Plan>(rc::gen::set(&Plan::cfg, genCfg),
                                        rc::gen::set(&Plan::steps, genSteps));

    bool ok = rc::check(h->property(), [&]() {
        Plan p = *genPlan;
        if (p.steps.size() > MAXS) p.steps.resize(MAXS);
        bool shrinking = st.failed;
        if (shrinking) {
            st.shrink_evaluations++;
            if ((long)st.shrink_evaluations > shrink_budget || time(NULL) - first_fail_at > shrink_seconds)
                return; // stop shrinking: remaining candidates "pass"
        } else
            st.evaluations++;
        std::string text = plan_to_text(p);
        write_file(prefix + ".current", text);
        Case c;
        Outcome o = h->run(p, c);
        if (!shrinking) {
            for (auto &cl : c.classes) st.classes[cl]++;
            if (c.nontrivial) {
                st.nontrivial++;
                st.nt_hashes.insert(plan_hash(p));
            }
            bool want = false;
            if (c.nontrivial && st.samples.size() < 3) want = true;
            for (auto &cl : c.classes)
                if (!st.sampled_classes.count(cl) && st.samples.size() < 10) want = true;
            if (want) {
                for (auto &cl : c.classes) st.sampled_classes.insert(cl);
                st.samples.push_back({text, c.trace.substr(0, 1500)});
            }
        }
        if (!o.ok) {
            if (!st.failed) first_fail_at = time(NULL);
            st.failed = true;
            st.fail_msg = o.msg;
            st.fail_trace = c.trace;
            write_file(prefix + ".failing",
                       text + "# " + o.msg + "\n");
            RC_FAIL(o.msg);
        }
    });
    unlink((prefix + ".current").c_str());
    if (getenv("VF_MEMPROFILE") && __sanitizer_print_memory_profile) __sanitizer_print_memory_profile(95, 12);
    h->teardown();
    write_stats(prefix + ".stats.json", h, st);
    if (!ok || st.failed) return 3;
    return 0;
}
#endif // VF_FUZZ
