// Endpoint-pair driver: creates real XCM connections inside the harness
// process, every XCM call wrapped in sh_enter/sh_leave so the shim knows which
// socket a kernel call belongs to.
#pragma once
#include "vf.h"

#include <poll.h>
#include <string>
#include <sys/stat.h>
#include <unistd.h>
#include <vector>

extern "C" {
#include "shim.h"
#include "xcm.h"
#include "xcm_attr.h"
#include "xcm_attr_map.h"
}
#include "pki.h"

namespace xp {

enum Tp { UX = 0, UXF, TCP, TLS, UTLS_UX, UTLS_TLS, TLS_UTLS, BTCP, BTLS, NTP };

static inline const char *tp_name(int tp)
{
    static const char *n[] = {"ux", "uxf", "tcp", "tls", "utls(ux-leg)", "utls-client->tls-server",
                              "tls-client->utls-server", "btcp", "btls"};
    return tp >= 0 && tp < NTP ? n[tp] : "?";
}
static inline bool is_bytestream(int tp) { return tp == BTCP || tp == BTLS; }
static inline bool is_ux_leg(int tp) { return tp == UX || tp == UXF || tp == UTLS_UX; }
static inline bool is_tcp_based(int tp) { return !is_ux_leg(tp); }
static inline bool uses_tls(int tp) { return tp == TLS || tp == UTLS_TLS || tp == TLS_UTLS || tp == BTLS; }

struct Ep {
    struct xcm_socket *s = nullptr;
    int tag = 0;
    bool blocking = false;
    bool closed = true;
    int fd = -1; // xcm_fd (non-blocking sockets)
};

template <class F> static inline auto call(Ep &e, F &&f) -> decltype(f())
{
    sh_enter(e.tag, e.blocking ? 0 : 1);
    auto r = f();
    int err = errno;
    sh_leave();
    errno = err;
    return r;
}

static inline int x_send(Ep &e, const void *b, size_t n) { return call(e, [&] { return xcm_send(e.s, b, n); }); }
static inline int x_receive(Ep &e, void *b, size_t n) { return call(e, [&] { return xcm_receive(e.s, b, n); }); }
static inline int x_finish(Ep &e) { return call(e, [&] { return xcm_finish(e.s); }); }
static inline int x_await(Ep &e, int c) { return call(e, [&] { return xcm_await(e.s, c); }); }
static inline int x_fd(Ep &e) { return call(e, [&] { return xcm_fd(e.s); }); }
static inline int x_set_blocking(Ep &e, bool b)
{
    int rc = call(e, [&] { return xcm_set_blocking(e.s, b); });
    if (rc == 0) e.blocking = b;
    return rc;
}
static inline void x_close(Ep &e)
{
    if (e.s) call(e, [&] { return xcm_close(e.s); });
    e.s = nullptr;
    e.closed = true;
}
static inline int64_t x_cnt(Ep &e, const char *name, bool *ok = nullptr)
{
    int64_t v = -1;
    int rc = call(e, [&] { return xcm_attr_get_int64(e.s, name, &v); });
    if (ok) *ok = rc >= 0;
    return rc >= 0 ? v : -1;
}

static inline bool fd_readable(int fd, int timeout_ms)
{
    struct pollfd p = {fd, POLLIN, 0};
    return poll(&p, 1, timeout_ms) > 0 && (p.revents & POLLIN);
}

struct Server {
    Ep ep;
    std::string connect_addr; // what a client must use
    bool ok = false;
};

struct World {
    std::string dir, certdir;
    pki::SimpleWorld pki;
    Server servers[NTP][2];
    bool inited = false;
    int next_tag = 100;

    static World &get()
    {
        static World w;
        if (!w.inited) w.init();
        return w;
    }

    void init()
    {
        inited = true;
        dir = vf::tmpdir();
        certdir = dir + "/cert";
        mkdir(certdir.c_str(), 0755);
        pki = pki::make_simple_world(certdir);
        setenv("XCM_TLS_CERT", certdir.c_str(), 1);
    }

    static std::string server_proto(int tp)
    {
        switch (tp) {
        case UX: return "ux";
        case UXF: return "uxf";
        case TCP: return "tcp";
        case TLS: case UTLS_TLS: return "tls";
        case UTLS_UX: case TLS_UTLS: return "utls";
        case BTCP: return "btcp";
        default: return "btls";
        }
    }
    static std::string client_proto(int tp)
    {
        switch (tp) {
        case UX: return "ux";
        case UXF: return "uxf";
        case TCP: return "tcp";
        case TLS: case TLS_UTLS: return "tls";
        case UTLS_UX: case UTLS_TLS: return "utls";
        case BTCP: return "btcp";
        default: return "btls";
        }
    }

    // A kept-alive non-blocking server socket for (transport, small buffers)
    Server &server(int tp, bool small, std::string &err)
    {
        Server &sv = servers[tp][small ? 1 : 0];
        if (sv.ok) return sv;
        sv.ep.tag = 10 + tp * 2 + (small ? 1 : 0);
        sv.ep.blocking = false;
        std::string addr;
        std::string sp = server_proto(tp);
        if (tp == UX) addr = "ux:verif-" + std::to_string(getpid()) + "-" + std::to_string(small);
        else if (tp == UXF) addr = "uxf:" + dir + "/srv" + std::to_string(small) + ".sock";
        else addr = sp + ":127.0.0.1:0";
        struct xcm_attr_map *a = xcm_attr_map_create();
        xcm_attr_map_add_bool(a, "xcm.blocking", false);
        if (is_bytestream(tp)) xcm_attr_map_add_str(a, "xcm.service", "bytestream");
        sh_set_bufsizes(small ? 4608 : 0, small ? 4608 : 0);
        sv.ep.s = call(sv.ep, [&] { return xcm_server_a(addr.c_str(), a); });
        sh_set_bufsizes(0, 0);
        xcm_attr_map_destroy(a);
        if (!sv.ep.s) {
            err = "xcm_server_a(" + addr + ") failed: " + vf::errname(errno);
            return sv;
        }
        sv.ep.closed = false;
        sv.ep.fd = x_fd(sv.ep);
        if (tp == UX || tp == UXF) sv.connect_addr = addr;
        else {
            const char *la = call(sv.ep, [&] { return xcm_local_addr(sv.ep.s); });
            std::string l = la ? la : "";
            size_t c = l.find(':');
            sv.connect_addr = client_proto(tp) + l.substr(c);
        }
        x_await(sv.ep, XCM_SO_ACCEPTABLE);
        sv.ok = true;
        return sv;
    }

    void drain_accept_queue(Server &sv)
    {
        for (int i = 0; i < 64; i++) {
            Ep tmp;
            tmp.tag = 99;
            sh_enter(99, 1);
            struct xcm_socket *c = xcm_accept(sv.ep.s);
            sh_leave();
            if (!c) {
                if (errno == EAGAIN) break;
                continue; // a stale connection that failed during accept: consumed
            }
            tmp.s = c;
            tmp.closed = false;
            x_close(tmp);
        }
    }
};

struct PairOpts {
    int tp = TCP;
    bool small_bufs = false;
    int client_tag = 2, server_conn_tag = 3;
    struct xcm_attr_map *client_attrs = nullptr; // extra (xcm.blocking added)
    struct xcm_attr_map *accept_attrs = nullptr;
    bool drive_to_ready = true; // run finish on both until 0
};

// Creates client+accepted connection (both non-blocking). Returns "" or error.
static inline std::string make_pair(const PairOpts &o, Ep &cli, Ep &acc)
{
    World &w = World::get();
    std::string err;
    Server &sv = w.server(o.tp, o.small_bufs, err);
    if (!sv.ok) return err;
    w.drain_accept_queue(sv);
    cli = Ep();
    acc = Ep();
    cli.tag = o.client_tag;
    acc.tag = o.server_conn_tag;
    struct xcm_attr_map *a = o.client_attrs ? xcm_attr_map_clone(o.client_attrs) : xcm_attr_map_create();
    xcm_attr_map_add_bool(a, "xcm.blocking", false);
    if (is_bytestream(o.tp) && !xcm_attr_map_exists(a, "xcm.service")) xcm_attr_map_add_str(a, "xcm.service", "bytestream");
    if (o.small_bufs) sh_set_bufsizes(4608, 4608);
    cli.s = call(cli, [&] { return xcm_connect_a(sv.connect_addr.c_str(), a); });
    sh_set_bufsizes(0, 0);
    xcm_attr_map_destroy(a);
    if (!cli.s) return "xcm_connect_a(" + sv.connect_addr + ") failed: " + vf::errname(errno);
    cli.closed = false;
    for (int i = 0; i < 2000 && !acc.s; i++) {
        // fds created by accept belong to the new connection's tag
        sh_enter(acc.tag, 1);
        acc.s = xcm_accept_a(sv.ep.s, o.accept_attrs);
        int e = errno;
        sh_leave();
        if (acc.s) break;
        if (e != EAGAIN) {
            x_close(cli);
            return std::string("xcm_accept failed: ") + vf::errname(e);
        }
        x_finish(cli);
        fd_readable(sv.ep.fd, 5);
    }
    if (!acc.s) {
        x_close(cli);
        return "no connection arrived at the server within the bound";
    }
    acc.closed = false;
    cli.fd = x_fd(cli);
    acc.fd = x_fd(acc);
    if (o.drive_to_ready) {
        bool c_ok = false, a_ok = false;
        for (int i = 0; i < 4000 && !(c_ok && a_ok); i++) {
            int rc = x_finish(cli);
            if (rc == 0) c_ok = true;
            else if (errno != EAGAIN) { int e = errno; x_close(cli); x_close(acc); return std::string("client finish: ") + vf::errname(e); }
            rc = x_finish(acc);
            if (rc == 0) a_ok = true;
            else if (errno != EAGAIN) { int e = errno; x_close(cli); x_close(acc); return std::string("server-side finish: ") + vf::errname(e); }
            if (!(c_ok && a_ok)) {
                x_await(cli, 0);
                x_await(acc, 0);
                struct pollfd p[2] = {{cli.fd, POLLIN, 0}, {acc.fd, POLLIN, 0}};
                poll(p, 2, 5);
            }
        }
        if (!(c_ok && a_ok)) { x_close(cli); x_close(acc); return "connection did not become ready within the bound"; }
    }
    return "";
}

} // namespace xp
