// C11 - attribute values take effect and are inherited as documented.
//
// A generated schedule of attribute writes is applied to a connecting socket
// at each point of its life - in the creation map, while the name is being
// resolved (scripted resolver), while XCM still regards the TCP handshake as
// pending (shim answers "in progress"), when established, after the peer has
// closed - and to server / accepted sockets.  Oracle: a model of the latest
// accepted value per attribute, compared with xcm_attr_get and with what the
// kernel reports for the connection's descriptor (getsockopt / getsockname).
#include "vf.h"
#include "xpair.h"

#include <arpa/inet.h>
#include <map>
#include <netinet/in.h>
#include <netinet/tcp.h>
#include <sys/socket.h>

extern "C" {
#include "ares_stub.h"
}

using namespace vf;
using namespace xp;

namespace {

enum Phase { PH_CREATE = 0, PH_RESOLVING, PH_CONNECTING, PH_ESTABLISHED, PH_CLOSED, NPH };
const char *PHN[] = {"creation-map", "resolving", "tcp-connecting", "established", "closed-by-peer"};

struct Write {
    int phase;
    std::string name;
    int type; // 0 bool 1 int64 2 double 3 str
    bool b = false;
    int64_t i = 0;
    double d = 0;
    std::string s;
    std::string show() const
    {
        char buf[128];
        if (type == 0) snprintf(buf, sizeof(buf), "%s=%s", name.c_str(), b ? "true" : "false");
        else if (type == 1) snprintf(buf, sizeof(buf), "%s=%ld", name.c_str(), (long)i);
        else if (type == 2) snprintf(buf, sizeof(buf), "%s=%g", name.c_str(), d);
        else snprintf(buf, sizeof(buf), "%s=\"%s\"", name.c_str(), s.c_str());
        return buf;
    }
};

struct Model {
    bool keepalive = true;
    int64_t ka_time = 1, ka_intvl = 1, ka_cnt = 3, user_timeout = 3;
    bool blocking = false;
};

int set_attr(Ep &e, const Write &w)
{
    return call(e, [&] {
        switch (w.type) {
        case 0: return xcm_attr_set_bool(e.s, w.name.c_str(), w.b);
        case 1: return xcm_attr_set_int64(e.s, w.name.c_str(), w.i);
        case 2: return xcm_attr_set_double(e.s, w.name.c_str(), w.d);
        default: return xcm_attr_set_str(e.s, w.name.c_str(), w.s.c_str());
        }
    });
}

void map_add(struct xcm_attr_map *m, const Write &w)
{
    switch (w.type) {
    case 0: xcm_attr_map_add_bool(m, w.name.c_str(), w.b); break;
    case 1: xcm_attr_map_add_int64(m, w.name.c_str(), w.i); break;
    case 2: xcm_attr_map_add_double(m, w.name.c_str(), w.d); break;
    default: xcm_attr_map_add_str(m, w.name.c_str(), w.s.c_str()); break;
    }
}

std::string snapshot(Ep &e)
{
    // all attributes except kernel statistics and traffic counters
    struct Ctx { std::string s; } ctx;
    call(e, [&] {
        xcm_attr_get_all(e.s, [](const char *name, enum xcm_attr_type type, void *value, size_t len, void *cb) {
            Ctx *c = (Ctx *)cb;
            if (!strncmp(name, "tcp.rtt", 7) || !strncmp(name, "tcp.segs", 8) || !strncmp(name, "tcp.total", 9) || strstr(name, "_bytes") || strstr(name, "_msgs")) return;
            c->s += name;
            c->s += '=';
            c->s += hex(value, len, 64);
            c->s += ';';
        }, &ctx);
        return 0;
    });
    return ctx.s;
}

bool valid_value(const Write &w)
{
    if (w.name == "tcp.keepalive_time" || w.name == "tcp.keepalive_interval") return w.i >= 1 && w.i <= 32767;
    if (w.name == "tcp.keepalive_count") return w.i >= 1 && w.i <= 127;
    if (w.name == "tcp.user_timeout") return w.i >= 1 && w.i <= 2147483;
    return true;
}
bool creation_only(const std::string &n)
{
    return n == "xcm.service" || n == "xcm.local_addr" || n == "dns.algorithm" || n == "dns.timeout" || n == "tcp.connect_timeout" ||
           n == "tls.auth" || n == "tls.check_time" || n == "tls.client" || n == "tls.verify_peer_name" || n == "tls.check_crl" || n == "ipv6.scope";
}

void apply_model(Model &m, const Write &w)
{
    if (w.name == "tcp.keepalive") m.keepalive = w.b;
    else if (w.name == "tcp.keepalive_time") m.ka_time = w.i;
    else if (w.name == "tcp.keepalive_interval") m.ka_intvl = w.i;
    else if (w.name == "tcp.keepalive_count") m.ka_cnt = w.i;
    else if (w.name == "tcp.user_timeout") m.user_timeout = w.i;
    else if (w.name == "xcm.blocking") m.blocking = w.b;
}

Write gen_write(Dec &d, int tp, int phase)
{
    Write w;
    w.phase = phase;
    uint32_t k = d.ch(14);
    uint32_t x = d.raw();
    static const int64_t TIMES[] = {1, 2, 7, 60, 600, 7200, 32767, 0, -1, 32768};
    static const int64_t CNTS[] = {1, 2, 9, 127, 0, 128, 200};
    static const int64_t UTOS[] = {1, 2, 17, 300, 100000, 2000000, 0, -5};
    switch (k) {
    case 0: case 1: w.name = "tcp.keepalive"; w.type = 0; w.b = x & 1; break;
    case 2: case 3: w.name = "tcp.keepalive_time"; w.type = 1; w.i = TIMES[x % 10]; break;
    case 4: w.name = "tcp.keepalive_interval"; w.type = 1; w.i = TIMES[x % 10]; break;
    case 5: w.name = "tcp.keepalive_count"; w.type = 1; w.i = CNTS[x % 7]; break;
    case 6: case 7: case 8: w.name = "tcp.user_timeout"; w.type = 1; w.i = UTOS[x % 8]; break;
    case 9: w.name = "xcm.service"; w.type = 3; w.s = x % 3 == 0 ? "any" : (x % 3 == 1) == is_bytestream(tp) ? "bytestream" : "messaging"; break;
    case 10: w.name = "dns.algorithm"; w.type = 3; w.s = x % 2 ? "sequential" : "happy_eyeballs"; break;
    case 11: w.name = x % 2 ? "tcp.connect_timeout" : "dns.timeout"; w.type = 2; w.d = 1.5 + (x % 7); break;
    case 12: w.name = "xcm.local_addr"; w.type = 3; w.s = World::client_proto(tp) + ":127.0.4." + std::to_string(1 + x % 200) + ":0"; break;
    default: w.name = "tls.check_time"; w.type = 0; w.b = x & 1; break;
    }
    return w;
}

class C11 : public Harness {
public:
    const char *property() override { return "C11"; }
    size_t cfg_len() override { return 12; }
    size_t step_len() override { return 4; }
    size_t max_steps() override { return 40; }
    void setup() override { World::get(); }

    Outcome run(const Plan &p, Case &c) override
    {
        sh_reset();
        as_reset();
        Dec cfg(p.cfg);
        int mode = (int)cfg.ch(10); // 0-6 connecting socket through its life, 7-8 accept/inheritance, 9 service/creation checks
        static const int TPS[] = {TCP, TLS, BTCP, BTLS, UTLS_TLS, TCP, BTCP};
        int tp = TPS[cfg.ch(7)];
        if (mode >= 9) return service_rules(c, cfg);
        if (mode >= 7) return inheritance(p, c, cfg, tp);
        return life(p, c, cfg, tp);
    }

    // ------------------------------------------------------------ life of a connecting socket
    Outcome life(const Plan &p, Case &c, Dec &cfg, int tp)
    {
        bool by_name = cfg.ch(2) == 0;
        int ndelay = (int)cfg.ch(12);
        uint32_t seed = cfg.raw();
        bool want_local = cfg.ch(3) == 0;
        bool set_blocking_pending = cfg.ch(4) == 0;
        World &w = World::get();
        std::string err;
        Server &sv = w.server(tp, false, err);
        VF_CHECK(sv.ok, "setup: %s", err.c_str());
        w.drain_accept_queue(sv);
        c.cls(std::string("tp:") + tp_name(tp));
        std::vector<Write> ws;
        for (auto &st : p.steps) {
            Dec d(st);
            int ph = (int)d.ch(NPH);
            if (ph == PH_RESOLVING && !by_name) ph = PH_CONNECTING;
            if (ph == PH_CONNECTING && ndelay == 0) ph = PH_ESTABLISHED;
            Write wr = gen_write(d, tp, ph);
            // values beyond the kernel's own limits can only be judged where a descriptor exists
            // (before that XCM stores them and the connection attempt fails later): keep them to
            // the established / closed phases
            if (!valid_value(wr) && wr.i > 0 && ph < PH_ESTABLISHED) continue;
            if (wr.name == "xcm.local_addr" && ph == PH_CREATE && !want_local) continue;
            if (wr.name.compare(0, 4, "tls.") == 0 && !uses_tls(tp)) continue;
            ws.push_back(wr);
        }
        Model m;
        std::string local_ip;
        // ---- creation map
        struct xcm_attr_map *am = xcm_attr_map_create();
        xcm_attr_map_add_bool(am, "xcm.blocking", false);
        if (is_bytestream(tp)) xcm_attr_map_add_str(am, "xcm.service", "bytestream");
        std::string trace;
        bool create_must_fail = false;
        for (auto &wr : ws)
            if (wr.phase == PH_CREATE) {
                if (wr.name == "xcm.service") { if (wr.s != "any" && (wr.s == "bytestream") != is_bytestream(tp)) create_must_fail = true; }
                if (!valid_value(wr)) create_must_fail = true;
                map_add(am, wr); // a later entry for the same name replaces the earlier one
                trace += wr.show() + " ";
            }
        // the map is a map: the last value per name counts
        {
            std::map<std::string, const Write *> last;
            for (auto &wr : ws) if (wr.phase == PH_CREATE) last[wr.name] = &wr;
            create_must_fail = false;
            for (auto &kv : last) {
                const Write &wr = *kv.second;
                if (wr.name == "xcm.service" && wr.s != "any" && (wr.s == "bytestream") != is_bytestream(tp)) create_must_fail = true;
                if (!valid_value(wr)) create_must_fail = true;
                apply_model(m, wr);
                if (wr.name == "xcm.local_addr") { size_t a = wr.s.find(':'), b = wr.s.rfind(':'); local_ip = wr.s.substr(a + 1, b - a - 1); }
            }
        }
        std::string addr = sv.connect_addr;
        if (by_name) {
            size_t c1 = addr.find(':'), c2 = addr.rfind(':');
            std::string name = "attr" + std::to_string(seed % 100000) + ".verif";
            const char *ips[] = {"127.0.0.1"};
            as_script(name.c_str(), AS_OK, 25, ips, 1);
            addr = addr.substr(0, c1 + 1) + name + addr.substr(c2);
        }
        for (int i = 0; i < ndelay; i++) sh_push(2, SH_CONN, SH_DELAY, 0);
        Ep S, A;
        S.tag = 2;
        A.tag = 3;
        c.log("%s connect %s; creation map: %s; %d delayed status probes", tp_name(tp), addr.c_str(), trace.c_str(), ndelay);
        errno = 0;
        S.s = call(S, [&] { return xcm_connect_a(addr.c_str(), am); });
        int e = errno;
        xcm_attr_map_destroy(am);
        if (create_must_fail) {
            VF_CHECK(!S.s, "C11: xcm_connect_a accepted a creation map with an inadmissible value (%s)", trace.c_str());
            VF_CHECK(e == EINVAL, "C11: xcm_connect_a refused an inadmissible creation value with %s (want EINVAL)", errname(e));
            c.cls("creation-map-rejected");
            c.nt(true);
            return Outcome::pass();
        }
        if (!S.s && e == ETIMEDOUT) {
            // establishment that times out is C13's subject; here it is what an overloaded machine does
            // to the 3 s default of tcp.connect_timeout / tcp.user_timeout: not a verdict on attributes
            c.cls("inconclusive:establishment-timed-out");
            return Outcome::pass();
        }
        VF_CHECK(S.s != nullptr, "C11: xcm_connect_a(%s) failed with %s for an admissible creation map (%s)", addr.c_str(), errname(e), trace.c_str());
        S.closed = false;
        S.fd = x_fd(S);
        Outcome o = Outcome::pass();
        struct Guard { Ep &a, &b; ~Guard() { x_close(a); x_close(b); } } guard{S, A};
        bool nt = false;
        auto do_phase = [&](int ph) -> Outcome {
            for (auto &wr : ws) {
                if (wr.phase != ph) continue;
                std::string before = snapshot(S);
                errno = 0;
                int rc = set_attr(S, wr);
                int se = errno;
                c.log("[%s] set %s -> %d %s", PHN[ph], wr.show().c_str(), rc, rc < 0 ? errname(se) : "");
                if (ph == PH_RESOLVING || ph == PH_CONNECTING) nt = true;
                if (creation_only(wr.name)) {
                    bool noop_ok = false;
                    if (wr.name == "xcm.service" && excluded("xcm.service-write-after-creation-not-refused")) { noop_ok = true; count_exclusion("xcm.service-write-after-creation-not-refused"); }
                    // tcp.connect_timeout: the code deliberately still takes it while the name is being
                    // resolved (it has not been used yet) and it does govern the attempt: accepted
                    if (wr.name == "tcp.connect_timeout" && ph == PH_RESOLVING && rc == 0) {
                        double dv = 0;
                        VF_CHECK(call(S, [&] { return xcm_attr_get_double(S.s, "tcp.connect_timeout", &dv); }) >= 0 && dv == wr.d, "C11: tcp.connect_timeout accepted while resolving but reads %g, written %g", dv, wr.d);
                        c.cls("tcp.connect_timeout-accepted-while-resolving");
                        continue;
                    }
                    if (!noop_ok) VF_CHECK(rc < 0 && se == EACCES, "C11: %s is writable only at creation, but writing it in phase '%s' returned %d %s (want -1/EACCES)", wr.name.c_str(), PHN[ph], rc, rc < 0 ? errname(se) : "");
                    std::string after = snapshot(S);
                    VF_CHECK(before == after, "C11: the refused write of %s changed the socket's attributes", wr.name.c_str());
                    continue;
                }
                if (!valid_value(wr)) {
                    VF_CHECK(rc < 0 && se == EINVAL, "C11: %s accepted/refused with %d %s (want -1/EINVAL)", wr.show().c_str(), rc, rc < 0 ? errname(se) : "");
                    std::string after = snapshot(S);
                    VF_CHECK(before == after, "C11: the refused write %s changed the socket's attributes", wr.show().c_str());
                    continue;
                }
                VF_CHECK(rc == 0, "C11: admissible write %s in phase '%s' failed with %s", wr.show().c_str(), PHN[ph], errname(se));
                apply_model(m, wr);
                Outcome g = check_get(S, m, PHN[ph]);
                if (!g.ok) return g;
            }
            return Outcome::pass();
        };
        // ---- resolving
        if (by_name) { o = do_phase(PH_RESOLVING); if (!o.ok) return o; }
        // wait for the resolver, without finishing the TCP handshake from XCM's point of view
        bool accepted = false;
        for (int i = 0; i < 600 && sh_connect_log_len() == 0; i++) { x_finish(S); x_await(S, 0); fd_readable(S.fd, 5); }
        // ---- connecting (XCM has not yet seen the handshake complete)
        if (ndelay > 0 && sh_script_left(2, SH_CONN) > 0) {
            c.cls("writes-while-tcp-connecting");
            o = do_phase(PH_CONNECTING);
            if (!o.ok) return o;
        } else
            for (auto &wr : ws) if (wr.phase == PH_CONNECTING) wr.phase = PH_ESTABLISHED;
        // ---- establish
        bool ready = false;
        for (int i = 0; i < 3000 && !ready; i++) {
            if (!accepted) {
                sh_enter(A.tag, 1);
                A.s = xcm_accept(sv.ep.s);
                sh_leave();
                if (A.s) { accepted = true; A.closed = false; A.fd = x_fd(A); }
            }
            int rc = x_finish(S);
            if (rc < 0 && errno == ETIMEDOUT) { c.cls("inconclusive:establishment-timed-out"); return Outcome::pass(); }
            if (rc < 0 && errno != EAGAIN) return failf("C11: connection failed during establishment: %s", errname(errno));
            if (accepted) x_finish(A);
            ready = rc == 0 && accepted && x_finish(A) == 0;
            if (!ready) usleep(300);
        }
        VF_CHECK(ready, "setup: connection did not become ready");
        Outcome k = check_kernel(S, m, local_ip, "on establishment");
        if (!k.ok) return k;
        // ---- established
        o = do_phase(PH_ESTABLISHED);
        if (!o.ok) return o;
        k = check_kernel(S, m, local_ip, "after writes on the established connection");
        if (!k.ok) return k;
        // ---- xcm.blocking with unfinished work behaves as xcm_set_blocking
        if (set_blocking_pending && !is_bytestream(tp) && is_tcp_based(tp)) {
            for (int i = 0; i < 6; i++) sh_push(S.tag, SH_SEND, i % 2 ? SH_EAGAIN : SH_PASS, 3);
            uint8_t msg[2000];
            memset(msg, 7, sizeof(msg));
            int rc = x_send(S, msg, sizeof(msg));
            int64_t pend = x_cnt(S, "xcm.from_app_msgs") - x_cnt(S, "xcm.to_lower_msgs");
            if (rc == 0 && pend > 0) {
                S.blocking = true; // the call below may wait
                int brc = call(S, [&] { return xcm_attr_set_bool(S.s, "xcm.blocking", true); });
                VF_CHECK(brc == 0, "C11: xcm.blocking=true with a pending message failed: %s", errname(errno));
                int64_t pend2 = x_cnt(S, "xcm.from_app_msgs") - x_cnt(S, "xcm.to_lower_msgs");
                VF_CHECK(pend2 == 0, "C11: xcm.blocking=true returned with %ld message(s) still unflushed; xcm_set_blocking(true) finishes outstanding work first", (long)pend2);
                VF_CHECK(call(S, [&] { return xcm_is_blocking(S.s); }), "C11: xcm.blocking=true accepted but xcm_is_blocking says false");
                brc = call(S, [&] { return xcm_attr_set_bool(S.s, "xcm.blocking", false); });
                S.blocking = false;
                VF_CHECK(brc == 0 && !call(S, [&] { return xcm_is_blocking(S.s); }), "C11: switching back to non-blocking through the attribute failed");
                c.cls("xcm.blocking-with-pending-work");
                nt = true;
            }
            sh_clear(S.tag);
        }
        // ---- after close by peer
        x_close(A);
        uint8_t tmp[64];
        for (int i = 0; i < 200; i++) { int rc = x_receive(S, tmp, sizeof(tmp)); if (rc == 0 || (rc < 0 && errno != EAGAIN)) break; usleep(300); }
        o = do_phase(PH_CLOSED);
        if (!o.ok) return o;
        c.nt(nt);
        return Outcome::pass();
    }

    Outcome check_get(Ep &S, const Model &m, const char *when)
    {
        bool b;
        int64_t v;
        VF_CHECK(call(S, [&] { return xcm_attr_get_bool(S.s, "tcp.keepalive", &b); }) >= 0 && b == m.keepalive, "C11: tcp.keepalive reads %d, last accepted value %d (%s)", b, m.keepalive, when);
        struct { const char *n; int64_t want; } T[] = {{"tcp.keepalive_time", m.ka_time}, {"tcp.keepalive_interval", m.ka_intvl}, {"tcp.keepalive_count", m.ka_cnt}, {"tcp.user_timeout", m.user_timeout}};
        for (auto &t : T) {
            int rc = call(S, [&] { return xcm_attr_get_int64(S.s, t.n, &v); });
            VF_CHECK(rc >= 0 && v == t.want, "C11: %s reads %ld, last accepted value %ld (%s)", t.n, (long)v, (long)t.want, when);
        }
        return Outcome::pass();
    }

    Outcome check_kernel(Ep &S, const Model &m, const std::string &local_ip, const char *when)
    {
        int fd = sh_data_fd(S.tag);
        VF_CHECK(fd >= 0, "setup: no data descriptor known for the connection");
        int v = -1;
        socklen_t l = sizeof(v);
        getsockopt(fd, SOL_SOCKET, SO_KEEPALIVE, &v, &l);
        VF_CHECK((v != 0) == m.keepalive, "C11: SO_KEEPALIVE is %d on the connection's descriptor, tcp.keepalive is %d (%s)", v, m.keepalive, when);
        struct { int opt; const char *n; int64_t want; } T[] = {{TCP_KEEPIDLE, "tcp.keepalive_time/TCP_KEEPIDLE", m.ka_time}, {TCP_KEEPINTVL, "tcp.keepalive_interval/TCP_KEEPINTVL", m.ka_intvl},
                                                                {TCP_KEEPCNT, "tcp.keepalive_count/TCP_KEEPCNT", m.ka_cnt}, {TCP_USER_TIMEOUT, "tcp.user_timeout/TCP_USER_TIMEOUT(ms)", m.user_timeout * 1000}};
        for (auto &t : T) {
            v = -1;
            l = sizeof(v);
            getsockopt(fd, IPPROTO_TCP, t.opt, &v, &l);
            VF_CHECK(v == t.want, "C11: %s is %d in the kernel, the latest accepted attribute value requires %ld (%s)", t.n, v, (long)t.want, when);
        }
        if (!local_ip.empty()) {
            struct sockaddr_in a;
            l = sizeof(a);
            getsockname(fd, (struct sockaddr *)&a, &l);
            char ip[64];
            inet_ntop(AF_INET, &a.sin_addr, ip, sizeof(ip));
            VF_CHECK(local_ip == ip, "C11: xcm.local_addr asked for source %s, the connection uses %s", local_ip.c_str(), ip);
            const char *la = call(S, [&] { return xcm_local_addr(S.s); });
            VF_CHECK(la && strstr(la, local_ip.c_str()), "C11: xcm_local_addr reports %s, configured %s", la ? la : "NULL", local_ip.c_str());
        }
        Outcome g = check_get(S, m, when);
        return g;
    }

    // ------------------------------------------------------------ accepted sockets
    Outcome inheritance(const Plan &p, Case &c, Dec &cfg, int tp)
    {
        c.cls("accept/inheritance");
        c.cls(std::string("tp:") + tp_name(tp));
        // (a blocking TLS accept waits for the handshake, which needs the client to be driven
        //  concurrently: blocking servers are exercised on the non-TLS transports)
        bool srv_blocking = cfg.ch(3) == 0 && !uses_tls(tp);
        bool srv_check_time = cfg.flag(), acc_override_ct = cfg.ch(3) == 0, acc_ct = cfg.flag();
        bool srv_auth = cfg.ch(4) != 0;
        uint32_t seed = cfg.raw();
        (void)seed;
        int acc_blk = (int)cfg.ch(3); // xcm.blocking in the accept map: 0 absent, 1 true, 2 false
        bool want_blocking = acc_blk == 1 ? true : acc_blk == 2 ? false : srv_blocking;
        World &w = World::get();
        std::string proto = World::server_proto(tp);
        std::string addr = proto + ":127.0.0.1:0";
        struct xcm_attr_map *sm = xcm_attr_map_create();
        xcm_attr_map_add_bool(sm, "xcm.blocking", srv_blocking);
        if (is_bytestream(tp)) xcm_attr_map_add_str(sm, "xcm.service", "bytestream");
        if (uses_tls(tp)) { xcm_attr_map_add_bool(sm, "tls.check_time", srv_check_time); xcm_attr_map_add_bool(sm, "tls.auth", srv_auth); if (!srv_auth) { /* no trust store may be named */ } }
        Ep srv, cli, acc;
        srv.tag = 30; cli.tag = 2; acc.tag = 3;
        srv.blocking = srv_blocking;
        if (uses_tls(tp) && !srv_auth) {
            // without authentication a trusted-CA file must not be configured: use explicit cert/key
            xcm_attr_map_add_str(sm, "tls.cert_file", (w.certdir + "/cert.pem").c_str());
            xcm_attr_map_add_str(sm, "tls.key_file", (w.certdir + "/key.pem").c_str());
        }
        srv.s = call(srv, [&] { return xcm_server_a(addr.c_str(), sm); });
        int e = errno;
        xcm_attr_map_destroy(sm);
        VF_CHECK(srv.s != nullptr, "setup: xcm_server_a(%s): %s", addr.c_str(), errname(e));
        srv.closed = false;
        struct Guard { Ep &a, &b, &c; ~Guard() { x_close(a); x_close(b); x_close(c); } } guard{cli, acc, srv};
        const char *la = call(srv, [&] { return xcm_local_addr(srv.s); });
        std::string l = la ? la : "";
        std::string caddr = World::client_proto(tp) + l.substr(l.find(':'));
        struct xcm_attr_map *cm = xcm_attr_map_create();
        xcm_attr_map_add_bool(cm, "xcm.blocking", false);
        if (is_bytestream(tp)) xcm_attr_map_add_str(cm, "xcm.service", "bytestream");
        cli.s = call(cli, [&] { return xcm_connect_a(caddr.c_str(), cm); });
        xcm_attr_map_destroy(cm);
        VF_CHECK(cli.s != nullptr, "setup: connect: %s", errname(errno));
        cli.closed = false;
        // accept-time attributes: TCP options and (TLS) a policy override
        Model m;
        struct xcm_attr_map *am = xcm_attr_map_create();
        std::string trace;
        for (auto &st : p.steps) {
            Dec d(st);
            d.raw();
            Write wr = gen_write(d, tp, PH_CREATE);
            if (wr.name.compare(0, 4, "tcp.") != 0 || wr.name == "tcp.connect_timeout" || !valid_value(wr)) continue;
            map_add(am, wr);
            apply_model(m, wr);
            trace += wr.show() + " ";
        }
        if (uses_tls(tp) && acc_override_ct) { xcm_attr_map_add_bool(am, "tls.check_time", acc_ct); trace += std::string("tls.check_time=") + (acc_ct ? "true" : "false"); }
        if (acc_blk) { xcm_attr_map_add_bool(am, "xcm.blocking", acc_blk == 1); trace += std::string(" xcm.blocking=") + (acc_blk == 1 ? "true" : "false"); c.cls(want_blocking != srv_blocking ? "accept-map-overrides-blocking-mode" : "accept-map-repeats-blocking-mode"); }
        c.log("%s server blocking=%d check_time=%d auth=%d; accept map: %s", tp_name(tp), srv_blocking, srv_check_time, srv_auth, trace.c_str());
        // make sure the connection is pending before a (possibly blocking) accept
        int lfd = sh_listen_fd(srv.tag, 0);
        for (int i = 0; i < 400; i++) { struct pollfd q = {lfd, POLLIN, 0}; if (lfd < 0 || poll(&q, 1, 0) > 0) break; x_finish(cli); usleep(300); }
        sh_enter(acc.tag, srv_blocking ? 0 : 1);
        acc.s = xcm_accept_a(srv.s, am);
        e = errno;
        sh_leave();
        xcm_attr_map_destroy(am);
        if (!acc.s && srv_blocking && uses_tls(tp)) {
            // a blocking TLS accept needs the client to drive its side: not possible single-threaded
            c.cls("blocking-tls-accept-skipped");
            return Outcome::pass();
        }
        VF_CHECK(acc.s != nullptr, "C11: xcm_accept_a with admissible attributes (%s) failed: %s", trace.c_str(), errname(e));
        acc.closed = false;
        acc.blocking = want_blocking;
        bool ab = call(acc, [&] { return xcm_is_blocking(acc.s); });
        VF_CHECK(ab == want_blocking, "C11: the server socket is %s, the accept map %s, the accepted socket is %s", srv_blocking ? "blocking" : "non-blocking",
                 acc_blk ? (acc_blk == 1 ? "says xcm.blocking=true" : "says xcm.blocking=false") : "does not mention xcm.blocking", ab ? "blocking" : "non-blocking");
        bool vb = false;
        VF_CHECK(call(acc, [&] { return xcm_attr_get_bool(acc.s, "xcm.blocking", &vb); }) >= 0 && vb == want_blocking, "C11: xcm.blocking of the accepted socket reads %d, expected %d (server %d, accept map %s)", vb, want_blocking, srv_blocking,
                 acc_blk ? (acc_blk == 1 ? "true" : "false") : "silent");
        char sv[64] = "";
        call(acc, [&] { return xcm_attr_get_str(acc.s, "xcm.service", sv, sizeof(sv)); });
        VF_CHECK(std::string(sv) == (is_bytestream(tp) ? "bytestream" : "messaging"), "C11: accepted socket's xcm.service is '%s'", sv);
        if (uses_tls(tp)) {
            bool ct = false, au = false;
            VF_CHECK(call(acc, [&] { return xcm_attr_get_bool(acc.s, "tls.check_time", &ct); }) >= 0, "tls.check_time unreadable on the accepted socket");
            bool want = acc_override_ct ? acc_ct : srv_check_time;
            VF_CHECK(ct == want, "C11: tls.check_time of the accepted socket is %d; server socket %d, accept-time override %s", ct, srv_check_time, acc_override_ct ? (acc_ct ? "true" : "false") : "none");
            VF_CHECK(call(acc, [&] { return xcm_attr_get_bool(acc.s, "tls.auth", &au); }) >= 0 && au == srv_auth, "C11: tls.auth of the accepted socket is %d, the server's %d", au, srv_auth);
        }
        if (want_blocking) { acc.blocking = false; sh_enter(acc.tag, 0); int rc = xcm_set_blocking(acc.s, false); sh_leave(); (void)rc; }
        Ep tmp = acc;
        Outcome k = check_kernel(tmp, m, "", "accepted socket, attributes given to xcm_accept_a");
        c.nt(true);
        return k;
    }

    // ------------------------------------------------------------ xcm.service admits / refuses transports
    Outcome service_rules(Case &c, Dec &cfg)
    {
        c.cls("service-rules");
        static const char *PROTOS[] = {"ux", "uxf", "tcp", "tls", "utls", "btcp", "btls"};
        int pi = (int)cfg.ch(7);
        static const char *SV[] = {"messaging", "bytestream", "any", "bogus"};
        int si = (int)cfg.ch(4);
        bool server = cfg.flag();
        bool bs = pi >= 5;
        std::string addr;
        World &w = World::get();
        if (pi == 0) addr = "ux:verif-c11-" + std::to_string(getpid());
        else if (pi == 1) addr = "uxf:" + w.dir + "/c11.sock";
        else addr = std::string(PROTOS[pi]) + ":127.0.0.1:" + (server ? "0" : "1");
        struct xcm_attr_map *am = xcm_attr_map_create();
        xcm_attr_map_add_bool(am, "xcm.blocking", false);
        xcm_attr_map_add_str(am, "xcm.service", SV[si]);
        Ep s;
        s.tag = 40;
        errno = 0;
        s.s = call(s, [&] { return server ? xcm_server_a(addr.c_str(), am) : xcm_connect_a(addr.c_str(), am); });
        int e = errno;
        xcm_attr_map_destroy(am);
        bool admissible = si == 2 || (si == 0 && !bs) || (si == 1 && bs);
        c.log("%s(%s) with xcm.service=%s -> %s", server ? "xcm_server_a" : "xcm_connect_a", addr.c_str(), SV[si], s.s ? "socket" : errname(e));
        if (!admissible) {
            bool was = s.s != nullptr;
            if (s.s) { s.closed = false; x_close(s); }
            VF_CHECK(!was, "C11: xcm.service=%s admitted a %s transport", SV[si], PROTOS[pi]);
            VF_CHECK(e == EINVAL, "C11: xcm.service=%s with %s refused with %s (want EINVAL)", SV[si], PROTOS[pi], errname(e));
        } else if (s.s) {
            s.closed = false;
            char v[64] = "";
            call(s, [&] { return xcm_attr_get_str(s.s, "xcm.service", v, sizeof(v)); });
            std::string want = bs ? "bytestream" : "messaging";
            bool okv = want == v;
            x_close(s);
            VF_CHECK(okv, "C11: xcm.service reads '%s' on a %s socket", v, PROTOS[pi]);
        } else {
            // creation may fail for other reasons (nothing listens on port 1 / ux name): not EINVAL though
            VF_CHECK(e != EINVAL, "C11: xcm.service=%s refused for %s with EINVAL although admissible", SV[si], PROTOS[pi]);
        }
        c.nt(true);
        return Outcome::pass();
    }
};

} // namespace

namespace vf {
Harness *make_harness() { return new C11(); }
}
