// Event-loop harness shared by C04 (liveness: no lost wake-ups, blocking calls
// return), C16 (readiness soundness) and C05 (non-blocking sockets never sleep).
//
// Protocol-abiding agents (a client connection, a server socket, the accepted
// connection) are driven by a generated scheduler.  An agent only ever acts
// the way the manual says: declare the awaited condition with xcm_await(), and
// when xcm_fd() is readable call the awaited operation or xcm_finish().  The
// plan adds speculative operations (allowed), fragmentation / refusal scripts
// below XCM, and the way the connection comes into being (literal address,
// resolver stub answering at once / late, shim-delayed TCP handshake).
#include "vf.h"
#include "xpair.h"

#include <algorithm>
#include <deque>
#include <pthread.h>
#include <dirent.h>
#include <sys/ioctl.h>
#include <sys/socket.h>
#include <sys/un.h>

extern "C" {
#include "ares_stub.h"
#include "ctl_proto.h"
}

using namespace vf;
using namespace xp;

namespace {

enum Mode { M_C04, M_C16, M_C05 };
Mode g_mode = M_C04;

double now_s()
{
    struct timespec ts;
    clock_gettime(CLOCK_MONOTONIC, &ts);
    return ts.tv_sec + ts.tv_nsec / 1e9;
}

struct Msg { uint32_t tag, len; uint32_t off = 0; Msg() : tag(0), len(0) {} Msg(uint32_t t, uint32_t l) : tag(t), len(l) {} };

struct Agent {
    Ep ep;
    const char *name = "?";
    bool is_server = false;
    bool established = false; // a call showed the connection usable (finish()==0 or data moved)
    bool terminal = false;    // saw 0 / a non-EAGAIN error
    int term_errno = 0;
    std::deque<Msg> sendq;
    bool refused = false;
    bool awaited_once = false;
    size_t small_cap = 0;       // byte streams: receive with this capacity (0 = large)
    bool probe_futile = false;  // a probe showed that nothing can progress right now
    bool finish_eagain = false; // the last xcm_finish said EAGAIN and no call has shown readiness since
    bool wants_recv = true;
    int idle_cond = XCM_SO_RECEIVABLE; // what it awaits when it has nothing to send
    int cond = 0;
    int peer = -1; // index of the agent at the other end
    // ledger of what this agent had accepted by xcm_send
    std::vector<Msg> accepted;
    std::string accepted_bytes;
    size_t delivered = 0; // how much of it the peer's receives returned
    // btls: bytes of a refused send that OpenSSL may transmit anyway (C02's recorded finding;
    // the agent retries the identical buffer, as that exclusion demands)
    std::string pending;
    size_t moved_from_pending = 0;
    uint64_t wakeups = 0, acts = 0, futile = 0;
};

struct Loop {
    Case &c;
    int tp;
    bool bs;
    std::vector<Agent> ag; // 0 client, 1 server, 2 accepted (once it exists)
    bool have_acc = false;
    uint64_t waits_with_owed = 0, quiescent_points = 0;
    bool nt_pending_flush_idle = false, nt_resolution = false, nt_multi_in_record = false, nt_handshake = false;
    bool saw_kernel_backpressure = false;
    Loop(Case &cc) : c(cc) {}

    Agent &A(int i) { return ag[i]; }
    bool alive(int i) { return i >= 0 && i < (int)ag.size() && ag[i].ep.s && !ag[i].ep.closed; }

    int want_cond(Agent &a)
    {
        if (a.is_server) return XCM_SO_ACCEPTABLE;
        int cnd = 0;
        if (a.wants_recv) cnd |= XCM_SO_RECEIVABLE;
        if (!a.sendq.empty()) cnd |= a.refused ? XCM_SO_SENDABLE : XCM_SO_SENDABLE;
        if (a.sendq.empty() && !a.wants_recv) cnd = a.idle_cond & ~XCM_SO_RECEIVABLE;
        return cnd;
    }

    Outcome declare_all()
    {
        for (size_t i = 0; i < ag.size(); i++) {
            if (!alive(i)) continue;
            Agent &a = ag[i];
            int cnd = want_cond(a);
            // the awaited condition stays in force until changed: an application need not
            // repeat xcm_await (some do; `reawait` is the plan's choice)
            if (cnd != a.cond || !a.awaited_once || reawait) {
                int rc = x_await(a.ep, cnd);
                VF_CHECK(rc == 0, "xcm_await(%d) on %s failed: %s", cnd, a.name, errname(errno));
                a.awaited_once = true;
            }
            a.cond = cnd;
            int fd = x_fd(a.ep);
            if (g_mode == M_C16) {
                VF_CHECK(fd == a.ep.fd, "C16: xcm_fd of %s changed from %d to %d", a.name, a.ep.fd, fd);
                // converse, with kernel-level certainty that the awaited condition is met right now
                if (!a.is_server && a.established && !a.terminal) {
                    if ((cnd & XCM_SO_RECEIVABLE) && kernel_readable_bytes(a) > 0)
                        VF_CHECK(fd_readable(a.ep.fd, 0), "C16: %s (%s) awaits RECEIVABLE and %d bytes are unread in its kernel socket, but its descriptor is not readable", a.name, tp_name(tp), kernel_readable_bytes(a));
                    if ((cnd & XCM_SO_SENDABLE) && pending_out(a) == 0 && a.pending.empty() && kernel_writable(a) && is_tcp_based(tp) ? !uses_tls(tp) : false)
                        VF_CHECK(fd_readable(a.ep.fd, 0), "C16: %s (%s) awaits SENDABLE on an established connection with a writable kernel socket, but its descriptor is not readable", a.name, tp_name(tp));
                }
            }
        }
        return Outcome::pass();
    }

    // poll all agents; returns indices readable
    std::vector<int> readable(int timeout_ms)
    {
        struct pollfd pf[4];
        int idx[4], n = 0;
        for (size_t i = 0; i < ag.size(); i++)
            if (alive(i)) { pf[n] = {ag[i].ep.fd, POLLIN | POLLOUT | POLLPRI, 0}; idx[n++] = (int)i; }
        std::vector<int> r;
        if (!n) return r;
        // POLLOUT is always reported for an epoll fd? no: epoll fds only ever signal POLLIN.
        for (int k = 0; k < n; k++) pf[k].events = POLLIN;
        poll(pf, n, timeout_ms);
        for (int k = 0; k < n; k++)
            if (pf[k].revents & POLLIN) r.push_back(idx[k]);
        return r;
    }

    int64_t pending_out(Agent &a)
    {
        if (a.is_server || a.terminal) return 0;
        if (bs) return 0; // byte streams hold nothing in XCM (btls: inside OpenSSL, not observable)
        int64_t f = x_cnt(a.ep, "xcm.from_app_msgs"), t = x_cnt(a.ep, "xcm.to_lower_msgs");
        return f > t ? f - t : 0;
    }
    bool kernel_writable(Agent &a)
    {
        int fd = sh_data_fd(a.ep.tag);
        if (fd < 0) return false;
        struct pollfd p = {fd, POLLOUT, 0};
        return poll(&p, 1, 0) > 0 && (p.revents & POLLOUT) && !(p.revents & (POLLERR | POLLHUP));
    }
    int kernel_readable_bytes(Agent &a)
    {
        int fd = sh_data_fd(a.ep.tag);
        if (fd < 0) return 0;
        int n = 0;
        if (ioctl(fd, FIONREAD, &n) < 0) return 0;
        return n;
    }
    int kernel_unsent(Agent &a)
    {
        int fd = sh_data_fd(a.ep.tag), n = 0;
        if (fd < 0 || ioctl(fd, TIOCOUTQ, &n) < 0) return -1;
        return n;
    }
    size_t undelivered(Agent &snd) { return bs ? snd.accepted_bytes.size() - snd.delivered : snd.accepted.size() - snd.delivered; }

    // Is anything owed to an agent that is waiting for it?  (description in `why`)
    bool owed(std::string &why)
    {
        for (size_t i = 0; i < ag.size(); i++) {
            if (!alive(i)) continue;
            Agent &a = ag[i];
            if (a.is_server) {
                int lfd = sh_listen_fd(a.ep.tag, 0);
                struct pollfd p = {lfd, POLLIN, 0};
                if (lfd >= 0 && poll(&p, 1, 0) > 0 && (p.revents & POLLIN) && (a.cond & XCM_SO_ACCEPTABLE)) {
                    why = "a connection is pending on the server socket, which awaits ACCEPTABLE";
                    return true;
                }
                continue;
            }
            if (a.terminal) continue;
            if (a.finish_eagain && !a.established && !a.probe_futile && pending_out(a) == 0) {
                // undecided connection attempt: is there kernel-level evidence that it can progress?
                int dfd = sh_data_fd(a.ep.tag);
                bool ev = dfd < 0 || kernel_readable_bytes(a) > 0 || (sh_connect_unobserved(a.ep.tag) && kernel_writable(a));
                if (ev) {
                    why = std::string(a.name) + ": xcm_finish said EAGAIN and the attempt can progress (" +
                          (dfd < 0 ? "name resolution pending" : kernel_readable_bytes(a) > 0 ? "handshake bytes unread in the kernel" : "TCP handshake completed in the kernel") + ")";
                    probe_agent = (int)i;
                    return true;
                }
            }
            if (pending_out(a) > 0 && (sh_data_fd(a.ep.tag) < 0 || kernel_writable(a))) {
                why = std::string(a.name) + " holds an accepted message that is not flushed while its kernel socket is writable";
                return true;
            }
            if ((a.cond & XCM_SO_RECEIVABLE) && kernel_readable_bytes(a) > 0) {
                why = std::string(a.name) + " awaits RECEIVABLE and its kernel socket holds unread bytes";
                return true;
            }
            Agent *p = a.peer >= 0 ? &ag[a.peer] : nullptr;
            if (p && (a.cond & XCM_SO_RECEIVABLE)) {
                if (!alive(a.peer) && !a.terminal) {
                    why = std::string(a.name) + " awaits RECEIVABLE and its peer has closed";
                    return true;
                }
                if (alive(a.peer) && tp == BTLS && undelivered(*p) > 0 && p->pending.empty() && kernel_unsent(*p) == 0 && kernel_readable_bytes(a) == 0) {
                    // SSL_write reported these bytes as written, the sender's kernel has transmitted them,
                    // the receiver's kernel holds nothing: they sit in the receiver's TLS layer
                    why = std::string(a.name) + " awaits RECEIVABLE; " + std::to_string(undelivered(*p)) + " byte(s) have been read from the kernel by its TLS layer and not yet handed over";
                    nt_multi_in_record = true;
                    return true;
                }
                if (alive(a.peer) && undelivered(*p) > 0 && pending_out(*p) == 0 && (!bs || tp == BTCP)) {
                    // everything the peer accepted has left XCM: it is in the kernel or in the TLS layer of `a`
                    why = std::string(a.name) + " awaits RECEIVABLE; its peer has flushed " + std::to_string(undelivered(*p)) +
                          " undelivered message(s)/byte(s)";
                    return true;
                }
            }
            if ((a.cond & XCM_SO_SENDABLE) && !a.sendq.empty() && kernel_writable(a) && pending_out(a) == 0) {
                why = std::string(a.name) + " awaits SENDABLE with a message to send and a writable kernel socket";
                return true;
            }
        }
        // nothing XCM owes; but the kernel may still hold bytes it has not transmitted (tiny
        // receive windows make TCP wait for its persist timer): keep the loop alive, not judged
        for (size_t i = 0; i < ag.size(); i++) {
            if (!alive(i) || ag[i].is_server || ag[i].terminal || ag[i].peer < 0 || !alive(ag[i].peer)) continue;
            if ((ag[i].cond & XCM_SO_RECEIVABLE) && kernel_unsent(ag[ag[i].peer]) > 0) {
                why = std::string("the kernel has not yet transmitted bytes towards ") + ag[i].name;
                owed_by_kernel = true;
                return true;
            }
        }
        return false;
    }
    bool owed_by_kernel = false;
    int kernel_stalls = 0;
    bool kernel_stalled = false;

    Outcome on_result_terminal(Agent &a, const char *op, int rc, int e)
    {
        a.finish_eagain = false;
        // terminal reports are fine only if the peer really closed (C06 judges the details)
        bool peer_gone = a.peer < 0 || !alive(a.peer) || ag[a.peer].terminal;
        VF_CHECK(peer_gone, "%s: %s returned %d %s while the peer is alive and nothing was injected", a.name, op, rc,
                 rc < 0 ? errname(e) : "");
        a.terminal = true;
        a.term_errno = rc == 0 ? 0 : e;
        return Outcome::pass();
    }

    Outcome do_receive(Agent &a, bool *got)
    {
        *got = false;
        size_t cap = bs && a.small_cap ? a.small_cap : 70000;
        static std::vector<uint8_t> buf(70000);
        int rc = x_receive(a.ep, buf.data(), cap);
        int e = errno;
        a.acts++;
        if (rc < 0 && e == EAGAIN) return Outcome::pass();
        if (rc <= 0) return on_result_terminal(a, "xcm_receive", rc, e);
        c.log("%s receive -> %d", a.name, rc);
        *got = true;
        a.established = true;
        a.finish_eagain = false;
        Agent &p = ag[a.peer];
        if (bs) {
            std::string all = p.accepted_bytes + p.pending;
            VF_CHECK(p.delivered + rc <= all.size(), "%s received %d bytes, only %zu outstanding", a.name, rc, all.size() - p.delivered);
            VF_CHECK(memcmp(buf.data(), all.data() + p.delivered, rc) == 0, "%s: received bytes differ from the accepted stream", a.name);
            p.delivered += rc;
            if (p.delivered > p.accepted_bytes.size()) {
                p.moved_from_pending += p.delivered - p.accepted_bytes.size();
                p.accepted_bytes = all.substr(0, p.delivered);
                p.pending = all.substr(p.delivered);
            }
        } else {
            VF_CHECK(p.delivered < p.accepted.size(), "%s received a message that was never accepted (or twice)", a.name);
            Msg m = p.accepted[p.delivered];
            VF_CHECK((uint32_t)rc == m.len, "%s: message #%zu has %u bytes, received %d", a.name, p.delivered, m.len, rc);
            for (int k = 0; k < rc; k++) VF_CHECK(buf[k] == prf_byte(m.tag, k), "%s: message #%zu differs at byte %d", a.name, p.delivered, k);
            p.delivered++;
        }
        return Outcome::pass();
    }

    Outcome do_send(Agent &a)
    {
        if (a.sendq.empty()) return Outcome::pass();
        Msg m = a.sendq.front();
        std::vector<uint8_t> b(m.len);
        prf_fill(m.tag, b.data(), m.len, m.off);
        int rc = x_send(a.ep, b.data(), m.len);
        int e = errno;
        a.acts++;
        c.log("%s send(tag %u, len %u) -> %d %s", a.name, m.tag, m.len, rc, rc < 0 ? errname(e) : "");
        if (rc < 0 && e == EAGAIN) {
            a.refused = true;
            if (tp == BTLS) { size_t mv = std::min<size_t>(a.moved_from_pending, m.len); a.pending.assign((const char *)b.data() + mv, m.len - mv); }
            if (a.established && sh_cnt(a.ep.tag)->send_eagain_real) saw_kernel_backpressure = true;
            return Outcome::pass();
        }
        if (rc < 0) return on_result_terminal(a, "xcm_send", rc, e);
        a.refused = false;
        a.finish_eagain = false; // from here on the pending-frame rule applies
        if (bs) {
            VF_CHECK(rc >= 1 && (uint32_t)rc <= m.len, "xcm_send(%u) returned %d", m.len, rc);
            {
                size_t skip = std::min<size_t>(a.moved_from_pending, rc);
                a.accepted_bytes.append((const char *)b.data() + skip, rc - skip);
                a.moved_from_pending = 0;
                a.pending.clear();
            }
            // partial acceptance: the application offers the rest next time
            if ((uint32_t)rc < m.len) { a.sendq.front().off += rc; a.sendq.front().len -= rc; c.cls("bytestream:partial-accept"); }
            else a.sendq.pop_front();
            a.established = true;
        } else {
            a.accepted.push_back(m);
            a.sendq.pop_front();
        }
        return Outcome::pass();
    }

    Outcome do_finish(Agent &a)
    {
        int rc = x_finish(a.ep);
        int e = errno;
        a.acts++;
        if (rc == 0) { a.established = true; a.finish_eagain = false; return Outcome::pass(); }
        if (e == EAGAIN) { a.finish_eagain = true; return Outcome::pass(); }
        a.finish_eagain = false;
        return on_result_terminal(a, "xcm_finish", rc, e);
    }

    Outcome do_accept(Agent &srv)
    {
        if (have_acc) {
            // a second connection is not part of the scenario: just consume
            return Outcome::pass();
        }
        Agent acc;
        acc.name = "accepted";
        acc.ep.tag = 3;
        sh_enter(acc.ep.tag, 1);
        acc.ep.s = xcm_accept(srv.ep.s);
        int e = errno;
        sh_leave();
        srv.acts++;
        if (!acc.ep.s) {
            VF_CHECK(e == EAGAIN, "xcm_accept failed: %s", errname(e));
            srv.futile++;
            return Outcome::pass();
        }
        acc.ep.closed = false;
        acc.ep.fd = x_fd(acc.ep);
        acc.peer = 0;
        acc.wants_recv = acc_wants_recv;
        acc.small_cap = acc_small_cap;
        acc.idle_cond = acc_idle_cond;
        acc.sendq = acc_sendq;
        ag.push_back(acc);
        ag[0].peer = 2;
        have_acc = true;
        c.log("server: accepted the connection");
        // the application asks once whether the connection is ready (speculative
        // xcm_finish); EAGAIN means XCM owes it a wake-up when that changes
        return do_finish(ag[2]);
    }
    bool reawait = false;
    uint64_t spurious_wakeups = 0;
    int probe_agent = -1;
    uint64_t moved(Agent &a) { const sh_counters *k = sh_cnt(a.ep.tag); return k->send_bytes + k->recv_bytes + k->connect_calls + (sh_connect_unobserved(a.ep.tag) ? 0 : 1000000); }
    size_t acc_small_cap = 0;
    bool acc_wants_recv = true;
    int acc_idle_cond = XCM_SO_RECEIVABLE;
    std::deque<Msg> acc_sendq;

    // The agent's fd was readable: act as the manual says.
    Outcome act(int i, int burst)
    {
        Agent &a = ag[i];
        a.wakeups++;
        a.probe_futile = false;
        if (a.is_server) return do_accept(a);
        if (a.terminal) {
            // the application has been told that the connection is gone: it closes it
            c.log("%s closes its dead connection", a.name);
            x_close(a.ep);
            return Outcome::pass();
        }
        bool did = false;
        for (int b = 0; b < burst; b++) {
            bool progressed = false;
            if ((a.cond & XCM_SO_RECEIVABLE) && !a.terminal) {
                bool got;
                Outcome o = do_receive(a, &got);
                if (!o.ok) return o;
                progressed |= got;
                did = true;
            }
            if ((a.cond & XCM_SO_SENDABLE) && !a.sendq.empty() && !a.terminal) {
                size_t before = a.sendq.size();
                Outcome o = do_send(a);
                if (!o.ok) return o;
                progressed |= a.sendq.size() < before;
                did = true;
            }
            if (!did && !a.terminal) {
                Outcome o = do_finish(a);
                if (!o.ok) return o;
                did = true;
                // woken with nothing awaited and nothing to finish: after three such
                // wake-ups the application looks at the connection (speculative receive),
                // which is how a close / reset is noticed by somebody awaiting nothing
                if (a.established && !a.finish_eagain && ++a.futile >= 3 && !a.terminal) {
                    bool got;
                    o = do_receive(a, &got);
                    if (!o.ok) return o;
                    spurious_wakeups++;
                    if (got || a.terminal) a.futile = 0;
                }
            }
            if (!progressed) break;
        }
        return Outcome::pass();
    }

    // One scheduler round.  Returns false in *more when the system is quiescent
    // and nothing is owed.
    Outcome round(uint32_t pick, int burst, bool *more)
    {
        Outcome o = declare_all();
        if (!o.ok) return o;
        std::vector<int> r = readable(0);
        if (r.empty()) {
            std::string why;
            probe_agent = -1;
            owed_by_kernel = false;
            if (!owed(why)) { *more = false; quiescent_points++; return Outcome::pass(); }
            waits_with_owed++;
            // something is owed: the kernel / timers must wake somebody.  Bounded wait.
            double t0 = now_s();
            r = readable(2000);
            if (r.empty()) {
                std::string why2;
                int pa = probe_agent;
                probe_agent = -1;
                if (owed_by_kernel) {
                    // TCP itself is slow (persist timer): not XCM's doing, give it a few more rounds
                    if (++kernel_stalls > 6) { kernel_stalled = true; *more = false; c.cls("kernel-tcp-stalled(small-window)"); }
                    else *more = true;
                    return Outcome::pass();
                }
                // re-evaluate: the obligation may have been an in-flight segment that has arrived elsewhere
                if (!owed(why2)) { *more = true; return Outcome::pass(); }
                if (pa >= 0 && probe_agent == pa) {
                    // The agent's knowledge ("finish said EAGAIN") may be stale.  Ask again and see
                    // whether the call had real work to do that nobody was woken for.
                    Agent &a = ag[pa];
                    uint64_t m0 = moved(a);
                    Outcome fo = do_finish(a);
                    if (!fo.ok) return fo;
                    bool worked = moved(a) != m0;
                    if (!worked) { if (a.finish_eagain) a.probe_futile = true; *more = true; c.cls("stale-finish-eagain-probed"); return Outcome::pass(); }
                    why += " - and a speculative xcm_finish then did have work to do";
                }
                if (g_mode != M_C04) { *more = false; c.cls("liveness-problem-seen-in-other-mode"); return Outcome::pass(); }
                return failf("C04: lost wake-up on %s: no socket descriptor became readable within %.1f s although %s (then: %s)",
                             tp_name(tp), now_s() - t0, why.c_str(), why2.c_str());
            }
        }
        *more = true;
        int i = r[pick % r.size()];
        return act(i, burst);
    }
};

// ---------------------------------------------------------------------------

struct BlockingClient {
    // blocking-mode application in its own thread: connect, send n, receive m, close
    std::string addr;
    bool bs = false;
    std::vector<Msg> to_send;
    size_t expect_msgs = 0, expect_bytes = 0;
    pthread_t th;
    volatile int phase = 0; // 0 not started, 1 connecting, 2 sending, 3 receiving, 4 closing, 5 done
    volatile int failed = 0;
    char msg[256] = {0};
    std::vector<Msg> got;
    std::string got_bytes;
    volatile int sent = 0;
    static void *main(void *arg)
    {
        BlockingClient *b = (BlockingClient *)arg;
        b->phase = 1;
        Ep e;
        e.tag = 2;
        e.blocking = true;
        struct xcm_attr_map *a = xcm_attr_map_create();
        if (b->bs) xcm_attr_map_add_str(a, "xcm.service", "bytestream");
        e.s = call(e, [&] { return xcm_connect_a(b->addr.c_str(), a); });
        xcm_attr_map_destroy(a);
        if (!e.s) { snprintf(b->msg, sizeof(b->msg), "blocking xcm_connect failed: %s", errname(errno)); b->failed = 1; b->phase = 5; return nullptr; }
        e.closed = false;
        b->phase = 2;
        for (auto &m : b->to_send) {
            std::vector<uint8_t> buf(m.len);
            prf_fill(m.tag, buf.data(), m.len);
            size_t off = 0;
            while (off < m.len) {
                int rc = x_send(e, buf.data() + off, m.len - off);
                if (rc < 0) { snprintf(b->msg, sizeof(b->msg), "blocking xcm_send failed: %s", errname(errno)); b->failed = 1; b->phase = 5; x_close(e); return nullptr; }
                off += b->bs ? rc : m.len;
            }
            b->sent++;
        }
        b->phase = 3;
        std::vector<uint8_t> buf(70000);
        while (b->bs ? b->got_bytes.size() < b->expect_bytes : b->got.size() < b->expect_msgs) {
            int rc = x_receive(e, buf.data(), buf.size());
            if (rc <= 0) { snprintf(b->msg, sizeof(b->msg), "blocking xcm_receive returned %d %s", rc, rc < 0 ? errname(errno) : ""); b->failed = 1; b->phase = 5; x_close(e); return nullptr; }
            if (b->bs) b->got_bytes.append((const char *)buf.data(), rc);
            else b->got.push_back({(uint32_t)fnv1a(buf.data(), rc), (uint32_t)rc});
        }
        b->phase = 4;
        x_close(e);
        b->phase = 5;
        return nullptr;
    }
};

class EvLoop : public Harness {
public:
    const char *property() override { return g_mode == M_C04 ? "C04" : g_mode == M_C16 ? "C16" : "C05"; }
    size_t cfg_len() override { return 24; }
    size_t step_len() override { return 4; }
    size_t max_steps() override { return 300; }
    void setup() override
    {
        const char *m = getenv("VF_PROP");
        std::string mm = m ? m : "C04";
        g_mode = mm == "C16" ? M_C16 : mm == "C05" ? M_C05 : M_C04;
        sh_override_user_timeout(600000);
        World::get();
    }

    uint32_t pick_len(Dec &d, bool bs)
    {
        static const int B[] = {1, 2, 5, 100, 1000, 4096, 16380, 16384, 16385, 30000, 65535};
        if (bs) return (uint32_t)(d.ch(2) ? d.range(1, 2000) : d.range(1, 60000));
        return d.ch(3) ? (uint32_t)d.range(1, 200) : (uint32_t)d.pick(B);
    }

    Outcome run(const Plan &p, Case &c) override
    {
        sh_reset();
        as_reset();
        Dec cfg(p.cfg);
        Loop L(c);
        static const int TPS[] = {UX, UXF, TCP, TLS, UTLS_UX, UTLS_TLS, TLS_UTLS, BTCP, BTLS, TCP, TLS, BTLS};
        L.tp = TPS[cfg.ch(12)];
        if (getenv("VF_TP")) L.tp = atoi(getenv("VF_TP"));
        L.bs = is_bytestream(L.tp);
        bool small = cfg.ch(2) == 0 && is_tcp_based(L.tp);
        int how = (int)cfg.ch(8); // 0-3 literal, 4 name answered at once, 5 name answered late, 6/7 shim-delayed TCP handshake
        if (!is_tcp_based(L.tp)) how = 0;
        int nA = (int)cfg.ch(5), nB = (int)cfg.ch(5);
        bool a_recv = cfg.ch(4) != 0, b_recv = cfg.ch(4) != 0;
        int a_idle = cfg.ch(2) ? XCM_SO_RECEIVABLE : 0, b_idle = cfg.ch(2) ? XCM_SO_RECEIVABLE : 0;
        bool hs_scripts = cfg.ch(2) == 0;
        uint32_t blocking_sel = cfg.ch(6);
        uint32_t seed = cfg.raw();
        L.reawait = cfg.ch(3) == 0;
        if (g_mode == M_C04 && blocking_sel == 0 && how < 4) return run_blocking(c, L.tp, small, seed, nA, nB);
        if (g_mode == M_C05 && blocking_sel < 4) return run_c05(p, c, L.tp, seed);

        World &w = World::get();
        std::string err;
        Server &sv = w.server(L.tp, small, err);
        VF_CHECK(sv.ok, "setup: %s", err.c_str());
        w.drain_accept_queue(sv);
        c.cls(std::string("tp:") + tp_name(L.tp));

        // the client
        Agent cli;
        cli.name = "client";
        cli.ep.tag = 2;
        cli.wants_recv = a_recv;
        {
            static const size_t CAPS[] = {0, 0, 61, 100, 1000, 5000, 16384};
            cli.small_cap = CAPS[(seed >> 8) % 7];
            L.acc_small_cap = CAPS[(seed >> 12) % 7];
            if (L.bs && (cli.small_cap || L.acc_small_cap)) c.cls("bytestream:small-receive-capacity");
        }
        cli.idle_cond = a_idle;
        for (int i = 0; i < nA; i++) cli.sendq.push_back({mix32(seed, i), pick_len(cfg, L.bs)});
        L.acc_wants_recv = b_recv;
        L.acc_idle_cond = b_idle;
        for (int i = 0; i < nB; i++) L.acc_sendq.push_back({mix32(seed, 100 + i), pick_len(cfg, L.bs)});
        // the undelivered-message rule needs receivers: a side that never reads is fine,
        // but then its peer's messages are simply not owed.
        std::string addr = sv.connect_addr;
        if (how == 4 || how == 5) {
            size_t c1 = addr.find(':'), c2 = addr.rfind(':');
            std::string name = "h" + std::to_string(seed % 1000) + ".verif";
            const char *ips[] = {"127.0.0.1"};
            int delay = how == 4 ? 0 : 5 + (int)(seed % 40);
            as_script(name.c_str(), AS_OK, delay, ips, 1);
            addr = addr.substr(0, c1 + 1) + name + addr.substr(c2);
            c.cls(how == 4 ? "connect:name-resolved-at-once" : "connect:name-resolved-late");
            L.nt_resolution = how == 5;
        } else if (how >= 6) {
            int n = 1 + (int)(seed % 6);
            for (int i = 0; i < n; i++) sh_push(cli.ep.tag, SH_CONN, SH_DELAY, 0);
            c.cls("connect:tcp-handshake-delayed");
        }
        if (hs_scripts && is_tcp_based(L.tp)) {
            // fragment / refuse the first I/O of both ends (TLS handshake included)
            for (int t = 2; t <= 3; t++)
                for (int k = 0; k < 12; k++) {
                    uint8_t b = prf_byte(seed, t * 50 + k);
                    sh_push(t, b & 1 ? SH_SEND : SH_RECV, b % 5 == 0 ? SH_EAGAIN : SH_PASS, 1 + b % 7);
                }
            if (uses_tls(L.tp)) L.nt_handshake = true;
        }
        struct xcm_attr_map *a = xcm_attr_map_create();
        xcm_attr_map_add_bool(a, "xcm.blocking", false);
        if (L.bs) xcm_attr_map_add_str(a, "xcm.service", "bytestream");
        if (small) sh_set_bufsizes(4608, 4608);
        cli.ep.s = call(cli.ep, [&] { return xcm_connect_a(addr.c_str(), a); });
        int e = errno;
        sh_set_bufsizes(0, 0);
        xcm_attr_map_destroy(a);
        VF_CHECK(cli.ep.s != nullptr, "xcm_connect_a(%s) failed: %s", addr.c_str(), errname(e));
        cli.ep.closed = false;
        cli.ep.fd = x_fd(cli.ep);
        L.ag.push_back(cli);
        Outcome o = L.do_finish(L.ag[0]);
        Agent srv;
        srv.name = "server";
        srv.is_server = true;
        srv.ep = sv.ep;
        L.ag.push_back(srv);
        c.log("%s%s connect via %s; client sends %d, accepted sends %d; client %s, accepted %s", tp_name(L.tp), small ? " small-buffers" : "",
              how < 4 ? "literal" : how == 4 ? "name(at once)" : how == 5 ? "name(late)" : "delayed handshake", nA, nB,
              a_recv ? "receives" : "does not receive", b_recv ? "receives" : "does not receive");

        // ---- scheduled part
        size_t stepno = 0;
        for (auto &st : p.steps) {
            if (!o.ok) break;
            stepno++;
            Dec d(st);
            uint32_t kind = d.ch(100);
            uint32_t x = d.raw(), y = d.raw(), z = d.raw();
            if (kind < 70) {
                bool more;
                o = L.round(x, 1 + y % 3, &more);
            } else if (kind < 80) {
                // speculative operation (the manual allows calling without waiting)
                int i = x % 3 == 2 && L.have_acc ? 2 : 0;
                if (!L.alive(i) || L.A(i).terminal) continue;
                Agent &ag = L.A(i);
                if (y % 3 == 0) { bool got; o = L.do_receive(ag, &got); }
                else if (y % 3 == 1 && !ag.sendq.empty()) o = L.do_send(ag);
                else o = L.do_finish(ag);
            } else if (kind < 90) {
                // the application decides to send one more message
                int i = x % 2 && L.have_acc ? 2 : 0;
                if (L.alive(i) && !L.A(i).terminal && L.A(i).sendq.size() < 6) {
                    Dec dd(st);
                    dd.raw(); dd.raw();
                    L.A(i).sendq.push_back({mix32(z, (uint32_t)stepno), pick_len(dd, L.bs)});
                }
            } else if (kind < 98) {
                int t = x % 2 ? 3 : 2;
                if (is_tcp_based(L.tp)) {
                    int n = 1 + y % 8;
                    for (int k = 0; k < n; k++) {
                        uint8_t b = prf_byte(z, k);
                        sh_push(t, b & 1 ? SH_SEND : SH_RECV, b % 4 == 0 ? SH_EAGAIN : SH_PASS, 1 + b % 9);
                    }
                }
            } else if (stepno > p.steps.size() / 2 && g_mode == M_C04) {
                // one side closes: the other must get to know
                int i = x % 2 && L.have_acc ? 2 : 0;
                if (L.alive(i) && L.alive(L.A(i).peer)) {
                    c.log("%s closes", L.A(i).name);
                    c.cls("close-during-traffic");
                    x_close(L.A(i).ep);
                }
            }
        }
        // ---- run to completion
        bool more = true;
        int rounds = 0;
        while (o.ok && more && rounds++ < 100000) o = L.round((uint32_t)rounds * 2654435761u, 1 + rounds % 3, &more);
        VF_CHECK(!o.ok || rounds < 100000, "event loops did not settle within 100000 rounds");
        // ---- everything accepted must have been delivered to a receiving, live peer
        if (o.ok && g_mode == M_C04 && !L.kernel_stalled) {
            for (size_t i = 0; i < L.ag.size() && o.ok; i++) {
                Agent &s = L.ag[i];
                if (s.is_server || s.peer < 0) continue;
                Agent &r = L.ag[s.peer];
                if (L.alive(i) && L.alive(s.peer) && r.wants_recv && !r.terminal && !s.terminal && L.undelivered(s) > 0)
                    o = failf("C04: the event loops went quiescent with %zu message(s)/byte(s) accepted from '%s' undelivered [receiver '%s': awaits %d, descriptor %s, %d unread bytes in its kernel socket; sender: %ld message(s) unflushed, %d bytes unsent in its kernel socket]",
                              L.undelivered(s), s.name, r.name, r.cond, fd_readable(r.ep.fd, 0) ? "readable" : "not readable", L.kernel_readable_bytes(r), (long)L.pending_out(s), L.kernel_unsent(s));
                if (L.alive(i) && !s.terminal && !L.alive(s.peer) && s.wants_recv)
                    o = failf("C04: %s awaits RECEIVABLE, its peer closed, and the loops went quiescent without it being told", s.name);
            }
        }
        // ---- C16: probes at the quiescent point
        if (o.ok && g_mode == M_C16) o = probes(L, c);
        if (o.ok && g_mode == M_C05 && sh_sleep_violations())
            o = failf("C05: %s", sh_sleep_violation_text());
        // classification
        uint64_t split = 0, inj = 0;
        for (int t = 2; t <= 3; t++) {
            split += sh_cnt(t)->send_short + sh_cnt(t)->recv_short;
            inj += sh_cnt(t)->send_eagain_inj + sh_cnt(t)->recv_eagain_inj;
        }
        if (split) c.cls("io-split");
        if (inj) c.cls("eagain-injected");
        if (L.waits_with_owed) c.cls("waited-for-kernel-or-timer-wakeup");
        if (L.saw_kernel_backpressure) c.cls("kernel-backpressure");
        if (L.nt_resolution) c.cls("resolution-finished-by-timer");
        if (L.nt_multi_in_record) c.cls("data-left-inside-tls-layer-while-awaiting");
        uint64_t delivered = 0;
        for (auto &a : L.ag) delivered += a.delivered;
        c.nt(delivered > 0 && (split || inj || L.nt_resolution || L.saw_kernel_backpressure || L.waits_with_owed));
        for (size_t i = 0; i < L.ag.size(); i++)
            if (!L.ag[i].is_server) x_close(L.ag[i].ep);
        return o;
    }

    // quiet / converse probes (C16) on a globally quiescent, established pair
    Outcome probes(Loop &L, Case &c)
    {
        if (!L.have_acc || !L.alive(0) || !L.alive(2)) return Outcome::pass();
        for (int i : {0, 2}) if (L.A(i).terminal || !L.A(i).established) return Outcome::pass();
        sh_clear(2); sh_clear(3);
        // reach true quiescence first: both applications send what they still hold, finish and
        // receive until nothing is queued, refused, unflushed or undelivered anywhere
        bool quiet = false;
        for (int rep = 0; rep < 3000 && !quiet; rep++) {
            bool any = false;
            for (int i : {0, 2}) {
                Agent &a = L.A(i);
                if (!a.sendq.empty()) { size_t n = a.sendq.size(); Outcome o = L.do_send(a); if (!o.ok) return o; any |= a.sendq.size() < n; }
                int rc = x_finish(a.ep);
                if (rc < 0 && errno != EAGAIN) return Outcome::pass();
                bool got = true;
                while (got) { Outcome o = L.do_receive(a, &got); if (!o.ok) return o; any |= got; if (a.terminal) return Outcome::pass(); }
            }
            quiet = !any && L.A(0).sendq.empty() && L.A(2).sendq.empty() && L.undelivered(L.A(0)) == 0 && L.undelivered(L.A(2)) == 0 &&
                    L.pending_out(L.A(0)) == 0 && L.pending_out(L.A(2)) == 0 && L.A(0).pending.empty() && L.A(2).pending.empty() &&
                    L.kernel_unsent(L.A(0)) <= 0 && L.kernel_unsent(L.A(2)) <= 0;
            if (!any && !quiet) usleep(300);
        }
        if (!quiet) { c.cls("C16:quiescence-not-reached"); return Outcome::pass(); }
        c.cls("C16:probes-at-quiescence");
        for (int i : {0, 2}) {
            Agent &a = L.A(i);
            // quiet with condition 0
            VF_CHECK(x_await(a.ep, 0) == 0, "xcm_await(0) failed");
            // TLS: session tickets etc. may still be unread; condition 0 must be quiet regardless
            for (int k = 0; k < 5; k++) {
                struct pollfd pf = {a.ep.fd, POLLIN | POLLOUT | POLLPRI, 0};
                poll(&pf, 1, k ? 4 : 0);
                VF_CHECK(!(pf.revents & (POLLOUT | POLLPRI | POLLERR | POLLHUP)), "C16: xcm_fd of %s signals events other than readable (revents 0x%x)", a.name, pf.revents);
                VF_CHECK(!(pf.revents & POLLIN), "C16: %s (%s) is idle, flushed, awaits nothing (condition 0) - yet its descriptor is readable (sample %d)", a.name, tp_name(L.tp), k);
            }
            // RECEIVABLE after an EAGAIN receive, nothing new arriving
            VF_CHECK(x_await(a.ep, XCM_SO_RECEIVABLE) == 0, "xcm_await(RECEIVABLE) failed");
            bool eagain = false;
            for (int k = 0; k < 20 && !eagain; k++) {
                uint8_t b[64];
                int rc = x_receive(a.ep, b, sizeof(b));
                VF_CHECK(rc < 0, "C16 probe: unexpected data/close (%d) at quiescence", rc);
                VF_CHECK(errno == EAGAIN, "C16 probe: receive failed with %s at quiescence", errname(errno));
                eagain = kernel_quiet(L, a);
            }
            if (eagain) {
                for (int k = 0; k < 5; k++) {
                    bool r = fd_readable(a.ep.fd, k ? 4 : 0);
                    VF_CHECK(!r || !kernel_quiet(L, a), "C16: %s (%s) awaits RECEIVABLE, xcm_receive has just said EAGAIN and nothing new has arrived - yet its descriptor is readable (sample %d)", a.name, tp_name(L.tp), k);
                }
                c.cls("C16:quiet-receivable-after-eagain");
                // ... and an xcm_finish in between changes nothing
                int frc = x_finish(a.ep);
                VF_CHECK(frc == 0, "C16 probe: xcm_finish failed at quiescence: %s", errname(errno));
                for (int k = 0; k < 3; k++) {
                    bool r = fd_readable(a.ep.fd, k ? 4 : 0);
                    VF_CHECK(!r || !kernel_quiet(L, a), "C16: %s (%s) awaits RECEIVABLE; xcm_receive said EAGAIN, xcm_finish had nothing to do, nothing new has arrived - yet its descriptor is readable (sample %d)", a.name, tp_name(L.tp), k);
                }
            }
            // converse: SENDABLE on an idle established connection is met at once
            VF_CHECK(x_await(a.ep, XCM_SO_SENDABLE) == 0, "xcm_await(SENDABLE) failed");
            VF_CHECK(fd_readable(a.ep.fd, 0), "C16: %s (%s) is idle and writable, awaits SENDABLE, but its descriptor is not readable", a.name, tp_name(L.tp));
            x_await(a.ep, 0);
        }
        // converse: data known to be in the kernel -> RECEIVABLE readable at the first sample
        for (int i : {0, 2}) {
            Agent &s = L.A(i), &r = L.A(s.peer);
            uint8_t m[100];
            prf_fill(777 + i, m, sizeof(m));
            x_await(r.ep, 0);
            int rc = x_send(s.ep, m, sizeof(m));
            if (rc < 0) continue;
            bool flushed = false;
            for (int k = 0; k < 200 && !flushed; k++) { flushed = x_finish(s.ep) == 0; if (!flushed) usleep(200); }
            bool arrived = false;
            for (int k = 0; k < 400 && !arrived; k++) { arrived = L.kernel_readable_bytes(r) > 0; if (!arrived) usleep(250); }
            if (!flushed || !arrived) continue;
            VF_CHECK(!fd_readable(r.ep.fd, 0), "C16: %s awaits nothing (condition 0) but its descriptor is readable once data arrived", r.name);
            VF_CHECK(x_await(r.ep, XCM_SO_RECEIVABLE) == 0, "xcm_await failed");
            VF_CHECK(fd_readable(r.ep.fd, 0), "C16: %s (%s) has %d unread bytes in its kernel socket and awaits RECEIVABLE, but its descriptor is not readable at the first sample", r.name, tp_name(L.tp), L.kernel_readable_bytes(r));
            c.cls("C16:converse-receivable");
            if (L.bs) s.accepted_bytes.append((const char *)m, rc); else s.accepted.push_back({(uint32_t)(777 + i), 100});
            bool got = false;
            for (int k = 0; k < 200 && !got; k++) { Outcome o = L.do_receive(r, &got); if (!o.ok) return o; if (!got) usleep(200); }
        }
        // the server socket: quiet while nothing is pending
        {
            Agent &sv = L.A(1);
            x_await(sv.ep, XCM_SO_ACCEPTABLE);
            int lfd = sh_listen_fd(sv.ep.tag, 0);
            struct pollfd lp = {lfd, POLLIN, 0};
            if (lfd >= 0 && poll(&lp, 1, 0) == 0)
                for (int k = 0; k < 5; k++) {
                    bool r = fd_readable(sv.ep.fd, k ? 4 : 0);
                    struct pollfd lp2 = {lfd, POLLIN, 0};
                    VF_CHECK(!r || poll(&lp2, 1, 0) > 0, "C16: the server socket awaits ACCEPTABLE with no connection pending, yet its descriptor is readable");
                }
            x_await(sv.ep, 0);
            // converse: a connection pending in the kernel -> ACCEPTABLE is met at the time of xcm_await
            Ep extra;
            extra.tag = 4;
            struct xcm_attr_map *am = xcm_attr_map_create();
            xcm_attr_map_add_bool(am, "xcm.blocking", false);
            if (L.bs) xcm_attr_map_add_str(am, "xcm.service", "bytestream");
            World &w = World::get();
            std::string ca;
            for (int sm = 0; sm < 2; sm++) if (w.servers[L.tp][sm].ok && w.servers[L.tp][sm].ep.s == sv.ep.s) ca = w.servers[L.tp][sm].connect_addr;
            extra.s = ca.empty() ? nullptr : call(extra, [&] { return xcm_connect_a(ca.c_str(), am); });
            xcm_attr_map_destroy(am);
            if (extra.s) {
                extra.closed = false;
                bool pend = false;
                for (int k = 0; k < 400 && !pend && lfd >= 0; k++) { struct pollfd q = {lfd, POLLIN, 0}; pend = poll(&q, 1, 0) > 0; if (!pend) { x_finish(extra); usleep(250); } }
                if (pend) {
                    VF_CHECK(x_await(sv.ep, XCM_SO_ACCEPTABLE) == 0, "xcm_await(ACCEPTABLE) failed");
                    VF_CHECK(fd_readable(sv.ep.fd, 0), "C16: a connection is pending on the %s server socket, which awaits ACCEPTABLE, but its descriptor is not readable", tp_name(L.tp));
                    c.cls("C16:converse-acceptable");
                }
                x_close(extra);
                w.drain_accept_queue(w.servers[L.tp][0].ep.s == sv.ep.s ? w.servers[L.tp][0] : w.servers[L.tp][1]);
            }
            x_await(sv.ep, XCM_SO_ACCEPTABLE);
        }
        return Outcome::pass();
    }
    static bool kernel_quiet(Loop &L, Agent &a) { return L.kernel_readable_bytes(a) == 0; }


    // ---- C05: API call sequences on a non-blocking socket held in a generated phase
    Outcome run_c05(const Plan &p, Case &c, int tp, uint32_t seed)
    {
        World &w = World::get();
        std::string err;
        bool tcpb = is_tcp_based(tp);
        int phase = (int)(seed % 8);
        if (!tcpb && (phase == 1 || phase == 2 || phase == 6 || phase == 7)) phase = 0;
        if (!uses_tls(tp) && phase == 3) phase = 4;
        static const char *PN[] = {"ready", "resolving-slow", "resolving-silent", "tls-handshake-silent-peer", "back-pressured",
                                   "closed-by-peer", "tcp-connecting-delayed", "named-local-addr"};
        bool small = phase == 4 && tcpb;
        Server &sv = w.server(tp, small, err);
        VF_CHECK(sv.ok, "setup: %s", err.c_str());
        w.drain_accept_queue(sv);
        if (phase == 7 && excluded("named-local-addr-resolved-synchronously")) { count_exclusion("named-local-addr-resolved-synchronously"); phase = 0; }
        c.cls(std::string("C05:phase=") + PN[phase]);
        c.cls(std::string("tp:") + tp_name(tp));
        bool bs = is_bytestream(tp);
        std::string addr = sv.connect_addr;
        struct xcm_attr_map *a = xcm_attr_map_create();
        xcm_attr_map_add_bool(a, "xcm.blocking", false);
        if (bs) xcm_attr_map_add_str(a, "xcm.service", "bytestream");
        const char *ips[] = {"127.0.0.1"};
        size_t c1 = addr.find(':'), c2 = addr.rfind(':');
        if (phase == 1 || phase == 2) {
            std::string name = "slow" + std::to_string(seed % 1000) + ".verif";
            as_script(name.c_str(), phase == 1 ? AS_OK : AS_SILENT, 30 + seed % 50, ips, 1);
            addr = addr.substr(0, c1 + 1) + name + addr.substr(c2);
            if (phase == 2) xcm_attr_map_add_double(a, "dns.timeout", 0.15);
        } else if (phase == 6) {
            for (int i = 0; i < 40; i++) sh_push(2, SH_CONN, SH_DELAY, 0);
        } else if (phase == 7) {
            {
                std::string name = "local" + std::to_string(seed % 1000) + ".verif";
                as_script(name.c_str(), AS_OK, 10, ips, 1);
                std::string la = World::client_proto(tp) + ":" + name + ":0";
                xcm_attr_map_add_str(a, "xcm.local_addr", la.c_str());
            }
        }
        // a third of the cases have the control interface enabled, with a client that sends
        // requests and never reads the (38 kB) replies
        bool lazy_ctl = (seed >> 10) % 3 == 0;
        std::string ctl_dir = tmpdir() + "/ctl05";
        mkdir(ctl_dir.c_str(), 0755);
        setenv("XCM_CTL", lazy_ctl ? ctl_dir.c_str() : "/nonexistent-xcm-ctl", 1);
        std::vector<std::string> ctl_before;
        if (lazy_ctl) { DIR *dd = opendir(ctl_dir.c_str()); struct dirent *de; while (dd && (de = readdir(dd))) if (de->d_name[0] != '.') ctl_before.push_back(de->d_name); if (dd) closedir(dd); c.cls("C05:control-client-not-reading"); }
        std::vector<int> ctl_fds;
        Ep S, Pr;
        S.tag = 2;
        Pr.tag = 3;
        if (small) sh_set_bufsizes(4608, 4608);
        double t0 = now_s();
        S.s = call(S, [&] { return xcm_connect_a(addr.c_str(), a); });
        int e = errno;
        double dt = now_s() - t0;
        sh_set_bufsizes(0, 0);
        xcm_attr_map_destroy(a);
        c.log("%s phase %s: xcm_connect_a(%s) -> %s in %.1f ms", tp_name(tp), PN[phase], addr.c_str(), S.s ? "socket" : errname(e), dt * 1e3);
        Outcome o = Outcome::pass();
        if (sh_sleep_violations()) o = failf("C05: %s (during xcm_connect_a, phase %s)", sh_sleep_violation_text(), PN[phase]);
        if (!S.s) {
            VF_CHECK(!o.ok || phase == 7 || phase == 2 || phase == 1, "xcm_connect_a failed: %s", errname(e));
            return o;
        }
        S.closed = false;
        S.fd = x_fd(S);
        if (lazy_ctl) {
            DIR *dd = opendir(ctl_dir.c_str());
            struct dirent *de;
            while (dd && (de = readdir(dd))) {
                if (de->d_name[0] == '.' || std::find(ctl_before.begin(), ctl_before.end(), de->d_name) != ctl_before.end()) continue;
                int fd = socket(AF_UNIX, SOCK_SEQPACKET | SOCK_NONBLOCK, 0);
                struct sockaddr_un ua;
                memset(&ua, 0, sizeof(ua));
                ua.sun_family = AF_UNIX;
                snprintf(ua.sun_path, sizeof(ua.sun_path), "%s/%s", ctl_dir.c_str(), de->d_name);
                if (connect(fd, (struct sockaddr *)&ua, sizeof(ua)) == 0) {
                    ctl_fds.push_back(fd);
                } else close(fd);
            }
            if (dd) closedir(dd);
        }
        auto accept_peer = [&]() {
            for (int i = 0; i < 400 && !Pr.s; i++) {
                sh_enter(Pr.tag, 1);
                Pr.s = xcm_accept(sv.ep.s);
                sh_leave();
                if (!Pr.s) { x_finish(S); fd_readable(sv.ep.fd, 2); }
            }
            if (Pr.s) { Pr.closed = false; Pr.fd = x_fd(Pr); }
        };
        if (phase == 0 || phase == 4 || phase == 5 || phase == 7) {
            accept_peer();
            if (Pr.s) for (int i = 0; i < 500; i++) { int r1 = x_finish(S), r2 = x_finish(Pr); if (r1 == 0 && r2 == 0) break; usleep(300); }
        }
        std::vector<uint8_t> big(60000, 0x5a);
        if (phase == 4 && Pr.s) {
            for (int i = 0; i < 400; i++) { int rc = x_send(S, big.data(), bs ? big.size() : 50000); if (rc < 0) break; }
        }
        if (phase == 5 && Pr.s) x_close(Pr);
        // generated API sequence on S (and accept attempts on the server)
        uint8_t rb[70000];
        int ncalls = 0;
        for (auto &st : p.steps) {
            if (!o.ok || S.closed) break;
            Dec d(st);
            uint32_t k = d.ch(12);
            uint32_t x = d.raw();
            double t1 = now_s();
            const char *what = "?";
            switch (k) {
            case 0: case 1: what = "xcm_send"; x_send(S, big.data(), 1 + x % (bs ? 60000 : 60000)); break;
            case 2: case 3: what = "xcm_receive"; x_receive(S, rb, 1 + x % sizeof(rb)); break;
            case 4: what = "xcm_finish"; x_finish(S); break;
            case 5: { static const int CS[] = {0, XCM_SO_RECEIVABLE, XCM_SO_SENDABLE, XCM_SO_RECEIVABLE | XCM_SO_SENDABLE}; what = "xcm_await"; x_await(S, CS[x % 4]); break; }
            case 6: what = "xcm_fd"; x_fd(S); break;
            case 7: {
                what = "xcm_attr_get_all";
                call(S, [&] { xcm_attr_get_all(S.s, [](const char *, enum xcm_attr_type, void *, size_t, void *) {}, nullptr); return 0; });
                break;
            }
            case 8: {
                static const char *NAMES[] = {"xcm.remote_addr", "xcm.local_addr", "tcp.rtt", "tls.peer_subject_key_id", "xcm.max_msg_size", "xcm.transport", "dns.timeout", "tcp.keepalive"};
                what = "xcm_attr_get";
                enum xcm_attr_type ty;
                char vb[512];
                const char *nm = NAMES[x % 8];
                call(S, [&] { return xcm_attr_get(S.s, nm, &ty, vb, sizeof(vb)); });
                break;
            }
            case 9: { what = "xcm_attr_set"; bool v = x & 1; call(S, [&] { return xcm_attr_set_bool(S.s, "tcp.keepalive", v); }); break; }
            case 10: {
                what = "xcm_accept";
                sh_enter(90, 1);
                struct xcm_socket *extra = xcm_accept(sv.ep.s);
                if (extra) xcm_close(extra);
                sh_leave();
                break;
            }
            default:
                if (x % 2 == 0) { what = "xcm_remote_addr"; call(S, [&] { return xcm_remote_addr(S.s); }); break; }
                {
                    // an attempt to switch to blocking mode that a signal interrupts while it waits for the
                    // outstanding work (this call may wait): having failed, it must have changed nothing -
                    // the socket is still a non-blocking one and the calls that follow are judged as before
                    what = "xcm_set_blocking(true) interrupted by a signal";
                    sh_eintr_at(1);
                    sh_enter(S.tag, 0);
                    errno = 0;
                    int rc = xcm_set_blocking(S.s, true);
                    int se = errno;
                    sh_leave();
                    sh_eintr_at(0);
                    bool now_blocking = xcm_is_blocking(S.s);
                    c.log("xcm_set_blocking(true) with an EINTR pending -> %d %s; xcm_is_blocking=%d", rc, rc < 0 ? errname(se) : "", (int)now_blocking);
                    if (rc < 0) {
                        c.cls("C05:set-blocking-failed");
                        if (now_blocking) o = failf("C05: xcm_set_blocking(true) failed with %s, yet the socket is in blocking mode now (phase %s, transport %s): later calls on what the application holds for a non-blocking socket will wait", errname(se), PN[phase], tp_name(tp));
                    } else {
                        sh_enter(S.tag, 0);
                        xcm_set_blocking(S.s, false);
                        sh_leave();
                    }
                    t1 = now_s(); // this call was allowed to wait
                }
                break;
            }
            double d1 = now_s() - t1;
            ncalls++;
            for (int cfd : ctl_fds) {
                static struct ctl_proto_msg req;
                req.type = ctl_proto_type_get_all_attr_req;
                ssize_t sr = send(cfd, &req, sizeof(req), MSG_NOSIGNAL | MSG_DONTWAIT);
                (void)sr;
            }
            if (sh_sleep_violations()) o = failf("C05: %s (in %s, phase %s, transport %s)", sh_sleep_violation_text(), what, PN[phase], tp_name(tp));
            else if (d1 > 1.0) o = failf("C05: %s took %.2f s on a non-blocking socket (phase %s)", what, d1, PN[phase]);
        }
        if (o.ok) {
            double t1 = now_s();
            x_close(S);
            if (sh_sleep_violations()) o = failf("C05: %s (in xcm_close, phase %s)", sh_sleep_violation_text(), PN[phase]);
            else if (now_s() - t1 > 1.0) o = failf("C05: xcm_close took %.2f s (phase %s)", now_s() - t1, PN[phase]);
        }
        x_close(S);
        x_close(Pr);
        for (int cfd : ctl_fds) close(cfd);
        setenv("XCM_CTL", "/nonexistent-xcm-ctl", 1);
        w.drain_accept_queue(sv);
        count("C05:api_calls", ncalls);
        c.nt(phase != 0 && ncalls > 0);
        return o;
    }

    // ---- blocking client against event-loop server side (C04)
    Outcome run_blocking(Case &c, int tp, bool small, uint32_t seed, int nA, int nB)
    {
        c.cls("blocking-client");
        c.cls(std::string("tp:") + tp_name(tp));
        World &w = World::get();
        std::string err;
        Server &sv = w.server(tp, small, err);
        VF_CHECK(sv.ok, "setup: %s", err.c_str());
        w.drain_accept_queue(sv);
        bool bs = is_bytestream(tp);
        BlockingClient b;
        b.addr = sv.connect_addr;
        b.bs = bs;
        std::vector<uint32_t> tape{seed, seed >> 3, seed >> 7, seed >> 11, seed >> 13, seed >> 17, seed >> 19, seed >> 23, seed * 7, seed * 13, seed * 31, seed * 131};
        Dec d(tape);
        nA = std::max(1, nA);
        for (int i = 0; i < nA; i++) b.to_send.push_back({mix32(seed, i), pick_len(d, bs)});
        Loop L(c);
        L.tp = tp;
        L.bs = bs;
        Agent cli_model; // stands for the blocking client in the ledger
        cli_model.name = "blocking-client";
        cli_model.ep.tag = 2;
        L.ag.push_back(cli_model);
        Agent srv;
        srv.name = "server";
        srv.is_server = true;
        srv.ep = sv.ep;
        L.ag.push_back(srv);
        for (int i = 0; i < nB; i++) L.acc_sendq.push_back({mix32(seed, 100 + i), pick_len(d, bs)});
        for (auto &m : L.acc_sendq) { b.expect_msgs++; b.expect_bytes += m.len; }
        // what the accepted side must receive
        for (auto &m : b.to_send) {
            if (bs) { size_t o0 = L.ag[0].accepted_bytes.size(); L.ag[0].accepted_bytes.resize(o0 + m.len); prf_fill(m.tag, (uint8_t *)&L.ag[0].accepted_bytes[o0], m.len); }
            else L.ag[0].accepted.push_back(m);
        }
        c.log("blocking client on %s%s: connect, send %d, receive %d, close", tp_name(tp), small ? " small-buffers" : "", nA, nB);
        if (small) sh_set_bufsizes(4608, 4608);
        pthread_create(&b.th, nullptr, BlockingClient::main, &b);
        double t0 = now_s(), last_progress = now_s();
        int last_phase = 0, last_sent = 0;
        size_t last_dlv = 0;
        Outcome o = Outcome::pass();
        while (b.phase != 5 && o.ok) {
            // the server side follows the event-loop protocol
            for (size_t i = 1; i < L.ag.size(); i++) {
                Agent &a = L.ag[i];
                if (!L.alive(i)) continue;
                x_await(a.ep, L.want_cond(a));
                a.cond = L.want_cond(a);
            }
            struct pollfd pf[3];
            int idx[3], n = 0;
            for (size_t i = 1; i < L.ag.size(); i++) if (L.alive(i)) { pf[n] = {L.ag[i].ep.fd, POLLIN, 0}; idx[n++] = (int)i; }
            poll(pf, n, 2);
            for (int k = 0; k < n && o.ok; k++) if (pf[k].revents & POLLIN) o = L.act(idx[k], 2);
            size_t dlv = L.ag[0].delivered;
            if (b.phase != last_phase || b.sent != last_sent || dlv != last_dlv) { last_progress = now_s(); last_phase = b.phase; last_sent = b.sent; last_dlv = dlv; }
            if (now_s() - last_progress > 10.0) {
                static const char *PH[] = {"start", "xcm_connect", "xcm_send", "xcm_receive", "xcm_close", "done"};
                o = failf("C04: blocking %s on %s made no progress for 10 s although the peer follows the event-loop protocol (sent %d/%zu, peer received %zu)",
                          PH[b.phase], tp_name(tp), b.sent, b.to_send.size(), dlv);
                break;
            }
            if (now_s() - t0 > 60) { o = failf("blocking scenario exceeded 60 s"); break; }
        }
        sh_set_bufsizes(0, 0);
        if (!o.ok) {
            // unblock the thread: close the server side
            for (size_t i = 2; i < L.ag.size(); i++) x_close(L.ag[i].ep);
            double t1 = now_s();
            while (b.phase != 5 && now_s() - t1 < 15) usleep(1000);
            if (b.phase == 5) pthread_join(b.th, nullptr); else pthread_detach(b.th);
            return o;
        }
        pthread_join(b.th, nullptr);
        VF_CHECK(!b.failed, "C04: %s", b.msg);
        // drain what the client sent before it closed
        if (L.have_acc) {
            Agent &acc = L.ag[2];
            for (int k = 0; k < 2000 && !acc.terminal && o.ok; k++) {
                bool got;
                o = L.do_receive(acc, &got);
                if (!got && !acc.terminal) fd_readable(acc.ep.fd, 1);
            }
            // (what the client sent right before closing may be cut short by a reset - TLS 1.3
            //  tickets unread at close() make the kernel send RST -; the receives above were
            //  checked to be a prefix, which is all C01 promises once a side has closed)
            if (o.ok && L.undelivered(L.ag[0]) > 0) c.cls("blocking-client:tail-lost-at-close");
            // and the client got the accepted side's messages, in order
            if (!bs) {
                VF_CHECK(b.got.size() == acc.accepted.size() || acc.sendq.size() > 0, "blocking client received %zu messages, %zu accepted", b.got.size(), acc.accepted.size());
                for (size_t k = 0; k < b.got.size() && k < acc.accepted.size(); k++) {
                    std::vector<uint8_t> buf(acc.accepted[k].len);
                    prf_fill(acc.accepted[k].tag, buf.data(), buf.size());
                    VF_CHECK(b.got[k].len == buf.size() && b.got[k].tag == (uint32_t)fnv1a(buf.data(), buf.size()), "blocking client: message #%zu differs", k);
                }
            }
            x_close(acc.ep);
        }
        c.nt(true);
        return o;
    }
};

} // namespace

namespace vf {
Harness *make_harness() { return new EvLoop(); }
}
