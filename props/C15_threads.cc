// C15 - threads using different sockets do not interfere.
//
// ThreadSanitizer build of library + harness.  2-6 threads each run a generated
// workload on *their own* sockets: create servers and connections of all
// transports (TLS with shared and with distinct credentials, so the context
// cache is hit and missed concurrently), keep up to dozens of connections
// alive (so that the shared eventfd pool rolls over its 100-user limit and is
// created / destroyed concurrently), exchange ledger-checked messages, read
// attributes, close; a share of the connections is handed to another thread
// through a mutex-protected queue.  Start barriers and generated yields vary
// the interleaving.  Oracle: no ThreadSanitizer report, every thread's ledger
// holds, socket ids (control-file names) are unique, and descriptors / control
// files are back to the start level after everything is closed.
#include "vf.h"
#include "xpair.h"
#include <sys/wait.h>

#include <algorithm>
#include <atomic>
#include <dirent.h>
#include <pthread.h>
#include <sched.h>
#include <sys/stat.h>

using namespace vf;
using namespace xp;

namespace {

std::string g_ctl;
pki::CertP g_roots[3], g_leaves[3];

int count_dir(const std::string &d)
{
    int n = 0;
    DIR *dir = opendir(d.c_str());
    if (!dir) return -1;
    struct dirent *e;
    while ((e = readdir(dir))) if (e->d_name[0] != '.') n++;
    closedir(dir);
    return n;
}
int count_fds()
{
    return count_dir("/proc/self/fd");
}

struct Pair { struct xcm_socket *a = nullptr, *b = nullptr; int tp = 0; uint32_t seq = 0; };

struct Handover {
    pthread_mutex_t mu = PTHREAD_MUTEX_INITIALIZER;
    std::vector<Pair> q;
    void put(const Pair &p) { pthread_mutex_lock(&mu); q.push_back(p); pthread_mutex_unlock(&mu); }
    bool take(Pair &p) { bool ok = false; pthread_mutex_lock(&mu); if (!q.empty()) { p = q.back(); q.pop_back(); ok = true; } pthread_mutex_unlock(&mu); return ok; }
};

struct Shared {
    pthread_barrier_t barrier;
    Handover hand;
    std::atomic<int> failed{0};
    std::atomic<long> live_sockets{0};
    std::atomic<long> utls_alive{0};
    std::atomic<long> expected_ctl{0}; // a utls server socket has one control socket per sub-socket
    char msg[512];
    pthread_mutex_t msg_mu = PTHREAD_MUTEX_INITIALIZER;
    std::atomic<long> handovers{0}, conns{0}, msgs{0};
    int ctl0 = 0, nthreads = 0, storm_rounds = 0;
    std::atomic<long> storm_open{0};
    void fail(const char *fmt, ...) __attribute__((format(printf, 2, 3)))
    {
        pthread_mutex_lock(&msg_mu);
        if (!failed.exchange(1)) { va_list ap; va_start(ap, fmt); vsnprintf(msg, sizeof(msg), fmt, ap); va_end(ap); }
        pthread_mutex_unlock(&msg_mu);
    }
};

struct Worker {
    int id = 0;
    Shared *sh = nullptr;
    std::vector<std::vector<uint32_t>> steps;
    pthread_t th;
    std::vector<Pair> mine;
    struct xcm_socket *servers[8] = {nullptr};
    std::string saddr[8];

    static const char *proto(int tp) { static const char *P[] = {"ux", "tcp", "tls", "utls", "btcp", "btls", "uxf"}; return P[tp % 7]; }

    struct xcm_attr_map *attrs(int tp, uint32_t x)
    {
        struct xcm_attr_map *a = xcm_attr_map_create();
        xcm_attr_map_add_bool(a, "xcm.blocking", false);
        if (tp == 4 || tp == 5) xcm_attr_map_add_str(a, "xcm.service", "bytestream");
        if (tp == 2 || tp == 3 || tp == 5) {
            // one of three credential sets by value (shared between threads -> cache hits), or the
            // files named by XCM_TLS_CERT
            int cs = x % 4;
            if (cs < 3) {
                xcm_attr_map_add_bin(a, "tls.cert", g_leaves[cs]->cert_pem.data(), g_leaves[cs]->cert_pem.size());
                xcm_attr_map_add_bin(a, "tls.key", g_leaves[cs]->key_pem.data(), g_leaves[cs]->key_pem.size());
                std::string tc = g_roots[0]->cert_pem + g_roots[1]->cert_pem + g_roots[2]->cert_pem;
                xcm_attr_map_add_bin(a, "tls.tc", tc.data(), tc.size());
            }
        }
        return a;
    }

    bool ensure_server(int tp, uint32_t x)
    {
        if (servers[tp]) return true;
        std::string addr;
        if (tp == 0) addr = "ux:c15-" + std::to_string(getpid()) + "-" + std::to_string(id);
        else if (tp == 6) addr = "uxf:" + tmpdir() + "/c15-" + std::to_string(id) + ".sock";
        else addr = std::string(proto(tp)) + ":127.0.0.1:0";
        struct xcm_attr_map *a = attrs(tp, 3); // servers: files from XCM_TLS_CERT (trusts the world's root) ...
        if (tp == 2 || tp == 3 || tp == 5) { xcm_attr_map_destroy(a); a = attrs(tp, x % 3); } // ... or a by-value set
        servers[tp] = xcm_server_a(addr.c_str(), a);
        xcm_attr_map_destroy(a);
        if (!servers[tp]) { sh->fail("thread %d: xcm_server_a(%s) failed: %s", id, addr.c_str(), errname(errno)); return false; }
        sh->live_sockets++;
        sh->expected_ctl += tp == 3 ? 2 : 1;
        if (tp == 3) sh->utls_alive++;
        if (tp == 0 || tp == 6) saddr[tp] = addr;
        else { const char *la = xcm_local_addr(servers[tp]); std::string l = la ? la : ""; saddr[tp] = std::string(proto(tp)) + l.substr(l.find(':')); }
        return true;
    }

    bool make_pair(int tp, uint32_t x)
    {
        if (!ensure_server(tp, x)) return false;
        Pair p;
        p.tp = tp;
        struct xcm_attr_map *a = attrs(tp, x % 3);
        p.a = xcm_connect_a(saddr[tp].c_str(), a);
        xcm_attr_map_destroy(a);
        if (!p.a) { sh->fail("thread %d: xcm_connect_a(%s) failed: %s", id, saddr[tp].c_str(), errname(errno)); return false; }
        sh->live_sockets++;
        sh->expected_ctl++;
        if (tp == 3) sh->utls_alive += 2;
        for (int i = 0; i < 20000 && !p.b; i++) {
            p.b = xcm_accept(servers[tp]);
            if (!p.b) { if (errno != EAGAIN) { sh->fail("thread %d: xcm_accept failed: %s", id, errname(errno)); return false; } xcm_finish(p.a); if (i > 50) usleep(100); }
        }
        if (!p.b) { sh->fail("thread %d: no connection arrived (%s)", id, proto(tp)); return false; }
        sh->live_sockets++;
        sh->expected_ctl++;
        bool ra = false, rb = false;
        for (int i = 0; i < 40000 && !(ra && rb); i++) {
            if (!ra) { int rc = xcm_finish(p.a); if (rc == 0) ra = true; else if (errno != EAGAIN) { sh->fail("thread %d: finish(a) %s on %s", id, errname(errno), proto(tp)); return false; } }
            if (!rb) { int rc = xcm_finish(p.b); if (rc == 0) rb = true; else if (errno != EAGAIN) { sh->fail("thread %d: finish(b) %s on %s", id, errname(errno), proto(tp)); return false; } }
            if (!(ra && rb) && i > 100) usleep(50);
        }
        if (!(ra && rb)) { sh->fail("thread %d: %s connection did not become ready", id, proto(tp)); return false; }
        mine.push_back(p);
        sh->conns++;
        return true;
    }

    // ledger-checked exchange on one of this thread's connections
    bool exchange(Pair &p, uint32_t x)
    {
        bool bs = p.tp == 4 || p.tp == 5;
        uint32_t len = 1 + x % (x % 5 == 0 ? 30000 : 400);
        std::vector<uint8_t> m(len), r(70000);
        uint32_t tag = mix32(x, p.seq++);
        prf_fill(tag, m.data(), len);
        struct xcm_socket *from = x & 1 ? p.a : p.b, *to = x & 1 ? p.b : p.a;
        size_t off = 0;
        for (int i = 0; i < 100000 && off < len; i++) {
            int rc = xcm_send(from, m.data() + off, len - off);
            if (rc < 0 && errno != EAGAIN) { sh->fail("thread %d: xcm_send failed: %s (%s)", id, errname(errno), proto(p.tp)); return false; }
            if (rc >= 0) off += bs ? rc : len;
            if (rc < 0) xcm_finish(from);
        }
        size_t got = 0;
        for (int i = 0; i < 200000 && got < len; i++) {
            xcm_finish(from);
            int rc = xcm_receive(to, r.data() + (bs ? got : 0), r.size() - (bs ? got : 0));
            if (rc > 0) { got += rc; if (!bs && (uint32_t)rc != len) { sh->fail("thread %d: message of %u bytes arrived with %d (%s)", id, len, rc, proto(p.tp)); return false; } }
            else if (rc == 0 || errno != EAGAIN) { sh->fail("thread %d: xcm_receive %d %s (%s)", id, rc, rc < 0 ? errname(errno) : "", proto(p.tp)); return false; }
            else if (i > 200) usleep(20);
        }
        if (got != len || memcmp(r.data(), m.data(), len) != 0) { sh->fail("thread %d: data corrupted or lost on its own %s connection (%zu of %u bytes)", id, proto(p.tp), got, len); return false; }
        sh->msgs++;
        return true;
    }

    void close_pair(Pair &p)
    {
        xcm_close(p.a);
        xcm_close(p.b);
        sh->live_sockets -= 2;
        sh->expected_ctl -= 2;
        if (p.tp == 3) sh->utls_alive -= 2;
    }

    // creation storm: all threads create cheap sockets at the same moment, round after round;
    // afterwards every open socket must have its own control socket (process-unique ids)
    void storm(int rounds, int per_round)
    {
        for (int r = 0; r < rounds && !sh->failed; r++) {
            std::vector<struct xcm_socket *> v;
            pthread_barrier_wait(&sh->barrier);
            for (int i = 0; i < per_round; i++) {
                std::string addr = "ux:c15s-" + std::to_string(getpid()) + "-" + std::to_string(id) + "-" + std::to_string(i);
                struct xcm_attr_map *a = xcm_attr_map_create();
                xcm_attr_map_add_bool(a, "xcm.blocking", false);
                struct xcm_socket *s = xcm_server_a(addr.c_str(), a);
                xcm_attr_map_destroy(a);
                if (s) v.push_back(s);
            }
            sh->storm_open += (long)v.size();
            pthread_barrier_wait(&sh->barrier);
            if (id == 0) {
                int files = count_dir(g_ctl) - sh->ctl0;
                long want = sh->storm_open.load();
                if (files != want) sh->fail("%ld sockets were created concurrently by %d threads but only %d control sockets exist: socket ids are not unique", want, sh->nthreads, files);
            }
            pthread_barrier_wait(&sh->barrier);
            for (auto s : v) xcm_close(s);
            sh->storm_open -= (long)v.size();
        }
    }

    static void *main(void *arg)
    {
        Worker *w = (Worker *)arg;
        w->storm(w->sh->storm_rounds, 25);
        pthread_barrier_wait(&w->sh->barrier);
        for (auto &st : w->steps) {
            if (w->sh->failed) break;
            Dec d(st);
            uint32_t k = d.ch(100), x = d.raw(), y = d.raw();
            if (y % 7 == 0) sched_yield();
            if (k < 30) { if (w->mine.size() < 40) w->make_pair((int)(x % 7), y); }
            else if (k < 38) {
                // burst: many connections at once (the shared always-readable descriptor serves 100 users)
                int n = 5 + (int)(y % 25);
                for (int i = 0; i < n && w->mine.size() < 60 && !w->sh->failed; i++) w->make_pair(x % 2 ? 1 : 4, y + i);
            }
            else if (k < 65) { if (!w->mine.empty()) w->exchange(w->mine[x % w->mine.size()], y); }
            else if (k < 72) {
                if (!w->mine.empty()) {
                    struct xcm_socket *s = w->mine[x % w->mine.size()].a;
                    xcm_attr_get_all(s, [](const char *, enum xcm_attr_type, void *, size_t, void *) {}, nullptr);
                    char buf[128];
                    xcm_attr_get_str(s, "xcm.transport", buf, sizeof(buf));
                }
            }
            else if (k < 84) { if (!w->mine.empty()) { size_t i = x % w->mine.size(); w->close_pair(w->mine[i]); w->mine.erase(w->mine.begin() + i); } }
            else if (k < 90) { if (!w->mine.empty()) { size_t i = x % w->mine.size(); w->sh->hand.put(w->mine[i]); w->mine.erase(w->mine.begin() + i); } }
            else if (k < 96) { Pair p; if (w->sh->hand.take(p)) { w->mine.push_back(p); w->sh->handovers++; w->exchange(w->mine.back(), y); } }
            else {
                // close everything, including the servers: the pools are torn down and rebuilt
                for (auto &p : w->mine) w->close_pair(p);
                w->mine.clear();
                for (int t = 0; t < 8; t++) if (w->servers[t]) { xcm_close(w->servers[t]); w->servers[t] = nullptr; w->sh->live_sockets--; w->sh->expected_ctl -= t == 3 ? 2 : 1; if (t == 3) w->sh->utls_alive--; }
            }
        }
        // all threads quiescent: every live socket has its own control socket (unique socket ids)
        pthread_barrier_wait(&w->sh->barrier);
        if (w->id == 0 && !w->sh->failed) {
            int files = count_dir(g_ctl) - w->sh->ctl0;
            long live = w->sh->live_sockets.load(), want = w->sh->expected_ctl.load();
            // (utls sockets carry the control sockets of their sub-sockets: counted only when none is open)
            if (w->sh->utls_alive == 0 && files != want) w->sh->fail("%ld sockets are open in %d threads, which should have %ld control sockets, but %d exist: socket ids are not unique", live, w->sh->nthreads, want, files);
        }
        pthread_barrier_wait(&w->sh->barrier);
        for (auto &p : w->mine) w->close_pair(p);
        w->mine.clear();
        for (int t = 0; t < 8; t++) if (w->servers[t]) { xcm_close(w->servers[t]); w->servers[t] = nullptr; w->sh->live_sockets--; w->sh->expected_ctl -= t == 3 ? 2 : 1; if (t == 3) w->sh->utls_alive--; }
        return nullptr;
    }
};

class C15 : public Harness {
public:
    const char *property() override { return "C15"; }
    size_t cfg_len() override { return 4; }
    size_t step_len() override { return 3; }
    size_t max_steps() override { return 400; }
    void setup() override
    {
        World::get();
        g_ctl = tmpdir() + "/ctl15";
        mkdir(g_ctl.c_str(), 0755);
        setenv("XCM_CTL", g_ctl.c_str(), 1);
        for (int i = 0; i < 3; i++) {
            pki::CertSpec r; r.cn = "c15-root-" + std::to_string(i); r.is_ca = true;
            g_roots[i] = pki::make_cert(r, nullptr);
            pki::CertSpec l; l.cn = "c15-leaf-" + std::to_string(i);
            g_leaves[i] = pki::make_cert(l, g_roots[i].get());
        }
        // the directory credentials must be accepted by by-value peers and vice versa
        World &w = World::get();
        std::string tc = w.pki.root->cert_pem + g_roots[0]->cert_pem + g_roots[1]->cert_pem + g_roots[2]->cert_pem;
        pki::write_file(w.certdir + "/tc.pem", tc);
        g_roots[0] = g_roots[0];
    }

    Outcome first_use_probe(Case &c, uint32_t sel)
    {
        int pfd[2];
        if (pipe(pfd) < 0) return Outcome::pass();
        pid_t pid = fork();
        if (pid == 0) {
            dup2(pfd[1], 1);
            dup2(pfd[1], 2);
            close(pfd[0]);
            close(pfd[1]);
            setenv("VF_C15_FIRSTUSE", std::to_string(sel).c_str(), 1);
            char *av[] = {(char *)"c15-first-use", nullptr};
            execv("/proc/self/exe", av);
            _exit(127);
        }
        close(pfd[1]);
        std::string out;
        char buf[4096];
        ssize_t n;
        while ((n = read(pfd[0], buf, sizeof(buf))) > 0) if (out.size() < 200000) out.append(buf, n);
        close(pfd[0]);
        int st = 0;
        waitpid(pid, &st, 0);
        c.cls("first-use-by-several-threads-at-once");
        count("first_use_probes");
        if (WIFEXITED(st) && WEXITSTATUS(st) == 0 && out.find("ThreadSanitizer") == std::string::npos) return Outcome::pass();
        c.trace += out.substr(0, 6000);
        size_t w = out.find("WARNING: ThreadSanitizer");
        std::string head = w == std::string::npos ? out.substr(0, 300) : out.substr(w, out.find('\n', w) - w);
        size_t fr = out.find("/repo/");
        if (fr == std::string::npos) fr = out.find("libxcm/");
        std::string where = fr == std::string::npos ? "" : out.substr(out.rfind(" in ", fr) == std::string::npos ? fr : out.rfind(" in ", fr), 120);
        where = where.substr(0, where.find('\n'));
        return failf("C15: the first XCM sockets of a fresh process, created by %d threads at the same moment: %s%s (child %s)", 2 + (int)(sel % 3), head.c_str(), where.c_str(),
                     WIFSIGNALED(st) ? ("killed by signal " + std::to_string(WTERMSIG(st))).c_str() : ("exit status " + std::to_string(WEXITSTATUS(st))).c_str());
    }

    Outcome run(const Plan &p, Case &c) override
    {
        Dec cfg(p.cfg);
        int nthreads = 2 + (int)cfg.ch(5);
        {
            // one case in three starts with the first-use probe in a fresh process
            uint32_t sel = mix32(p.cfg.size() > 3 ? p.cfg[3] : 0, p.cfg.empty() ? 0 : p.cfg[0]);
            if (sel % 3 == 0) {
                Outcome fo = first_use_probe(c, sel >> 2);
                if (!fo.ok) return fo;
            }
        }
        int fds0 = count_fds();
        int ctl0 = count_dir(g_ctl);
        Shared sh;
        sh.ctl0 = ctl0;
        sh.nthreads = nthreads;
        sh.storm_rounds = 10 + (int)cfg.ch(30);
        pthread_barrier_init(&sh.barrier, nullptr, nthreads);
        std::vector<Worker> ws(nthreads);
        for (int i = 0; i < nthreads; i++) { ws[i].id = i; ws[i].sh = &sh; }
        size_t n = 0;
        for (auto &st : p.steps) ws[n++ % nthreads].steps.push_back(st);
        for (auto &w : ws) pthread_create(&w.th, nullptr, Worker::main, &w);
        for (auto &w : ws) pthread_join(w.th, nullptr);
        // connections still in the hand-over queue
        Pair q;
        while (sh.hand.take(q)) { xcm_close(q.a); xcm_close(q.b); sh.live_sockets -= 2; sh.expected_ctl -= 2; if (q.tp == 3) sh.utls_alive -= 2; }
        pthread_barrier_destroy(&sh.barrier);
        c.log("%d threads, %ld connections, %ld messages, %ld hand-overs", nthreads, sh.conns.load(), sh.msgs.load(), sh.handovers.load());
        count("connections", sh.conns.load());
        count("messages", sh.msgs.load());
        count("handovers", sh.handovers.load());
        VF_CHECK(!sh.failed, "C15: %s", sh.msg);
        VF_CHECK(sh.live_sockets == 0, "harness: %ld sockets unaccounted for", sh.live_sockets.load());
        int ctl1 = count_dir(g_ctl);
        VF_CHECK(ctl1 == ctl0, "C15: %d control file(s) left after every socket was closed (socket ids / control paths confused between threads?)", ctl1 - ctl0);
        int fds1 = count_fds();
        VF_CHECK(fds1 == fds0, "C15: %d descriptor(s) left after every socket was closed by its thread", fds1 - fds0);
        if (sh.handovers > 0) c.cls("socket-handed-over-between-threads");
        if (sh.conns >= 100) c.cls(">=100-connections");
        c.cls("threads:" + std::to_string(nthreads));
        c.nt(sh.conns >= 8 && nthreads >= 2);
        return Outcome::pass();
    }
};

} // namespace

// ---- first use: a fresh process whose very first XCM sockets are created by several threads at
// the same moment (whatever the library sets up lazily on first use is set up under contention).
// Runs in a child made by exec of this same binary; ThreadSanitizer watches it.
namespace {
struct FirstUse { pthread_barrier_t *bar; int kind; };
void *first_use_thread(void *arg)
{
    FirstUse *f = (FirstUse *)arg;
    static const char *SRV[] = {"tls:127.0.0.1:0", "btls:127.0.0.1:0", nullptr, "utls:127.0.0.1:0", "tcp:127.0.0.1:0", "ux:c15-first-use"};
    pthread_barrier_wait(f->bar);
    struct xcm_attr_map *a = xcm_attr_map_create();
    xcm_attr_map_add_bool(a, "xcm.blocking", false);
    struct xcm_socket *s;
    if (f->kind == 2) s = xcm_connect_a("tls:127.0.0.1:1", a);
    else {
        if (f->kind == 1) xcm_attr_map_add_str(a, "xcm.service", "bytestream");
        std::string addr = SRV[f->kind];
        if (f->kind == 5) addr += "-" + std::to_string((long)getpid()) + "-" + std::to_string((long)pthread_self());
        s = xcm_server_a(addr.c_str(), a);
    }
    xcm_attr_map_destroy(a);
    if (s) xcm_close(s);
    return nullptr;
}
void first_use_child(unsigned sel)
{
    World::get(); // certificates and XCM_TLS_CERT only: no socket has been made in this process
    int n = 2 + (int)(sel % 3);
    pthread_barrier_t bar;
    pthread_barrier_init(&bar, nullptr, n);
    pthread_t th[4];
    FirstUse fu[4];
    for (int i = 0; i < n; i++) { fu[i].bar = &bar; fu[i].kind = (int)((sel >> (3 + 3 * i)) % 6); if (i == 0 && fu[i].kind >= 4) fu[i].kind = 0; pthread_create(&th[i], nullptr, first_use_thread, &fu[i]); }
    for (int i = 0; i < n; i++) pthread_join(th[i], nullptr);
    _exit(0);
}
} // namespace

namespace vf {
Harness *make_harness()
{
    if (const char *fu = getenv("VF_C15_FIRSTUSE")) first_use_child((unsigned)strtoul(fu, nullptr, 10));
    return new C15();
}
}
