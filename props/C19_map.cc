// C19 — attribute maps are finite maps; attribute paths are canonical.
// Stateful model test of the public xcm_attr_map API against std::map, and
// round-trip / grammar oracle for the internal attr_path functions.
#include "vf.h"

#include <climits>
#include <map>
#include <string>
#include <vector>

extern "C" {
#include "xcm_attr_map.h"
#include "attr_path.h"
}

using namespace vf;

namespace {

struct Val {
    int type;
    std::string bytes;
    bool operator==(const Val &o) const { return type == o.type && bytes == o.bytes; }
};
typedef std::map<std::string, Val> Model;

const int NSLOTS = 4;

std::string gen_name(Dec &d)
{
    static const char *POOL[] = {"a", "b", "xcm.blocking", "tls.cert", "k", "name with space",
                                 "\xc3\xa5\xc3\xa4\xc3\xb6", "a.b[3].c", "A", "aa"};
    uint32_t sel = d.ch(14);
    if (sel < 10) return POOL[sel];
    if (sel < 12) return std::string("key") + std::to_string(d.ch(40));
    size_t len = sel == 12 ? (size_t)d.range(200, 400) : (size_t)d.range(1, 30);
    uint32_t tag = d.raw();
    std::string s;
    for (size_t i = 0; i < len; i++) { unsigned char c = prf_byte(tag, i); if (!c) c = 'z'; s += (char)c; }
    return s;
}

Val gen_val(Dec &d)
{
    Val v;
    static const int TYPES[] = {xcm_attr_type_bool, xcm_attr_type_int64, xcm_attr_type_str,
                                xcm_attr_type_bin, xcm_attr_type_double};
    v.type = d.pick(TYPES);
    uint32_t tag = d.raw();
    switch (v.type) {
    case xcm_attr_type_bool: { bool b = tag & 1; v.bytes.assign((char *)&b, sizeof(b)); break; }
    case xcm_attr_type_int64: {
        static const int64_t I[] = {0, 1, -1, INT64_MAX, INT64_MIN, 4711};
        int64_t x = d.ch(2) ? d.pick(I) : (int64_t)(((uint64_t)tag << 32) | d.raw());
        v.bytes.assign((char *)&x, sizeof(x));
        break;
    }
    case xcm_attr_type_double: {
        // (byte-exact: the two zeros differ, a NaN equals itself, two NaNs with different payloads differ)
        static const uint64_t DB[] = {0x0000000000000000ull, 0x8000000000000000ull, 0x3ff8000000000000ull, 0x7fe1ccf385ebc8a0ull, 0x800000000000b8b8ull,
                                      0x7ff8000000000000ull, 0x7ff8000000000001ull, 0xfff8000000000000ull, 0x7ff0000000000000ull};
        double x = (double)tag / 7.0;
        if (d.ch(2)) { uint64_t b = d.pick(DB); memcpy(&x, &b, 8); }
        v.bytes.assign((char *)&x, sizeof(x));
        break;
    }
    case xcm_attr_type_str: {
        static const int L[] = {0, 1, 5, 255, 4096};
        size_t len = d.ch(2) ? (size_t)d.pick(L) : (size_t)d.range(0, 300);
        for (size_t i = 0; i < len; i++) { unsigned char c = prf_byte(tag, i); if (!c) c = 0xc3; v.bytes += (char)c; }
        v.bytes += '\0';
        break;
    }
    default: {
        static const int L[] = {0, 1, 7, 8, 9, 4096, 1 << 20};
        size_t len = d.ch(2) ? (size_t)d.pick(L) : (size_t)d.range(0, 300);
        v.bytes.resize(len);
        prf_fill(tag, (uint8_t *)&v.bytes[0], len);
    }
    }
    return v;
}

struct ForeachState {
    std::map<std::string, int> seen;
    const Model *m;
    std::string err;
};

void foreach_cb(const char *name, enum xcm_attr_type type, const void *value, size_t len, void *user)
{
    ForeachState *st = (ForeachState *)user;
    st->seen[name]++;
    auto it = st->m->find(name);
    if (it == st->m->end()) { st->err = std::string("foreach visits unknown key '") + name + "'"; return; }
    if ((int)type != it->second.type || len != it->second.bytes.size() ||
        memcmp(value, it->second.bytes.data(), len) != 0)
        st->err = std::string("foreach gives wrong type/value for '") + name + "'";
}

Outcome compare_slot(struct xcm_attr_map *m, const Model &ref, const char *when)
{
    VF_CHECK(xcm_attr_map_size(m) == ref.size(), "%s: size %zu, model %zu", when, xcm_attr_map_size(m), ref.size());
    ForeachState st;
    st.m = &ref;
    xcm_attr_map_foreach(m, foreach_cb, &st);
    VF_CHECK(st.err.empty(), "%s: %s", when, st.err.c_str());
    VF_CHECK(st.seen.size() == ref.size(), "%s: foreach visited %zu distinct keys, model has %zu", when, st.seen.size(), ref.size());
    for (auto &kv : st.seen) VF_CHECK(kv.second == 1, "%s: foreach visited '%s' %d times", when, kv.first.c_str(), kv.second);
    for (auto &kv : ref) {
        enum xcm_attr_type t;
        size_t len = 12345;
        const void *v = xcm_attr_map_get(m, kv.first.c_str(), &t, &len);
        VF_CHECK(v != nullptr, "%s: key '%s' missing", when, kv.first.c_str());
        VF_CHECK((int)t == kv.second.type && len == kv.second.bytes.size() && memcmp(v, kv.second.bytes.data(), len) == 0,
                 "%s: key '%s' has wrong type/len/bytes (type %d len %zu, model type %d len %zu)", when, kv.first.c_str(), (int)t, len, kv.second.type, kv.second.bytes.size());
        VF_CHECK(xcm_attr_map_exists(m, kv.first.c_str()), "%s: exists('%s') false", when, kv.first.c_str());
        // typed getters: non-NULL iff the type matches
        const void *tb = xcm_attr_map_get_bool(m, kv.first.c_str());
        const void *ti = xcm_attr_map_get_int64(m, kv.first.c_str());
        const void *td = xcm_attr_map_get_double(m, kv.first.c_str());
        const void *ts = xcm_attr_map_get_str(m, kv.first.c_str());
        const void *tn = xcm_attr_map_get_bin(m, kv.first.c_str());
        VF_CHECK((tb != nullptr) == (kv.second.type == xcm_attr_type_bool) &&
                     (ti != nullptr) == (kv.second.type == xcm_attr_type_int64) &&
                     (td != nullptr) == (kv.second.type == xcm_attr_type_double) &&
                     (ts != nullptr) == (kv.second.type == xcm_attr_type_str) &&
                     (tn != nullptr) == (kv.second.type == xcm_attr_type_bin),
                 "%s: typed lookup of '%s' (type %d) does not return NULL exactly on type mismatch", when, kv.first.c_str(), kv.second.type);
    }
    return Outcome::pass();
}

// ------------------------------------------------------------------ paths
struct RefComp { bool is_key; std::string key; unsigned long idx; };

// Reference parser of the documented grammar. Returns 1 accept, 0 reject,
// 2 unspecified (strtol leniencies: sign/whitespace/leading zeros handled:
// leading zeros are canonicalised, sign/space unspecified)
int ref_path(const std::string &s, bool root, std::vector<RefComp> &out)
{
    out.clear();
    if (s.size() > 255) return 0;
    size_t i = 0;
    bool unspec = false;
    bool first = true;
    while (i < s.size()) {
        RefComp c;
        if (first && root) {
            size_t j = i;
            while (j < s.size() && s[j] != '.' && s[j] != '[' && s[j] != ']') j++;
            if (j == i) return 0;
            c.is_key = true; c.key = s.substr(i, j - i); i = j;
        } else if (s[i] == '.') {
            size_t j = i + 1;
            while (j < s.size() && s[j] != '.' && s[j] != '[' && s[j] != ']') j++;
            if (j == i + 1) return 0;
            c.is_key = true; c.key = s.substr(i + 1, j - i - 1); i = j;
        } else if (s[i] == '[') {
            size_t j = s.find(']', i);
            if (j == std::string::npos) return 0;
            std::string num = s.substr(i + 1, j - i - 1);
            if (num.empty()) return 0;
            bool digits = true;
            for (char ch : num) if (ch < '0' || ch > '9') digits = false;
            if (!digits) {
                // strtol leniency (leading space / sign) is unspecified; anything
                // else inside the brackets must be rejected
                size_t k = 0;
                while (k < num.size() && (num[k] == ' ' || (num[k] >= 9 && num[k] <= 13))) k++;
                if (k < num.size() && (num[k] == '+' || num[k] == '-')) k++;
                bool rest_digits = k < num.size();
                for (size_t q = k; q < num.size(); q++) if (num[q] < '0' || num[q] > '9') rest_digits = false;
                if (!rest_digits) return 0;
                return 2;
            }
            size_t nz = 0;
            while (nz + 1 < num.size() && num[nz] == '0') nz++;
            std::string core = num.substr(nz);
            if (core.size() > 18) return core.size() > 19 ? 0 : 2; // around LONG_MAX: unspecified
            c.is_key = false; c.idx = strtoul(core.c_str(), nullptr, 10); i = j + 1;
        } else
            return 0; // e.g. stray ']' or key chars directly after an index
        first = false;
        out.push_back(c);
    }
    if (out.size() > 64) return 0;
    return unspec ? 2 : 1;
}

std::string canon(const std::vector<RefComp> &cs, bool root)
{
    std::string s;
    bool first = true;
    for (auto &c : cs) {
        if (c.is_key) { if (!(first && root)) s += '.'; s += c.key; }
        else s += "[" + std::to_string(c.idx) + "]";
        first = false;
    }
    return s;
}

std::string gen_path(Dec &d, Case &c)
{
    std::string s;
    uint32_t mode = d.ch(10);
    if (mode < 6) { // from the grammar
        int n = d.ch(4) == 0 ? (int)d.range(60, 70) : (int)d.range(1, 8);
        static const char *KEYS[] = {"a", "xcm", "tls", "peer", "cert", "san", "dns", "k-1", "_", "x y", "\xc3\xa5", "0"};
        for (int i = 0; i < n; i++) {
            bool idx = i > 0 && d.ch(3) == 0;
            if (idx) {
                static const char *IDX[] = {"0", "1", "7", "007", "42", "65535", "4294967296", "9223372036854775806", "00"};
                s += std::string("[") + (d.ch(2) ? d.pick(IDX) : std::to_string(d.raw())) + "]";
            } else {
                if (i > 0) s += '.';
                s += n > 50 ? "a" : d.pick(KEYS);
            }
        }
        c.cls(n > 50 ? "path:many-components" : "path:grammar");
    } else if (mode < 8) { // near misses
        static const char *BAD[] = {"", ".", "a.", ".a", "a..b", "[0]", "a[", "a[]", "a[x]", "a]", "a[1", "a[1]b", "a[-1]",
                                    "a[ 1]", "a[+1]", "a[9223372036854775807]", "a[99999999999999999999]", "a[1][2]", "a[1].b[2]",
                                    "a.[1]", "a[1]]", "a[[1]", "a[1e3]", "a[0x10]", "a[1 ]"};
        s = d.pick(BAD);
        c.cls("path:near-miss");
    } else if (mode < 9) {
        size_t len = (size_t)d.range(250, 400);
        s = std::string(len, 'k');
        if (d.flag()) for (size_t i = 1; i < s.size(); i += 2) s[i] = '.';
        c.cls("path:long");
    } else {
        size_t n = (size_t)d.range(0, 24);
        static const char A[] = "ab.[]019 -+";
        for (size_t i = 0; i < n; i++) { uint32_t v = d.raw(); char ch = (v & 0x100) ? A[v % (sizeof(A) - 1)] : (char)(v & 0xff); if (!ch) break; s += ch; }
        c.cls("path:raw");
    }
    return s;
}

Outcome check_path(const std::string &s, bool root, Case &c)
{
    char *hs = (char *)malloc(s.size() + 1);
    memcpy(hs, s.c_str(), s.size() + 1);
    std::vector<RefComp> ref;
    int verdict = ref_path(s, root, ref);
    struct attr_path *p = attr_path_parse(hs, root);
    Outcome o = Outcome::pass();
    std::string shown = s.size() > 80 ? s.substr(0, 80) + "...(" + std::to_string(s.size()) + ")" : s;
    do {
        if (verdict == 1 && !p) { o = failf("path '%s' (root=%d) is within the documented syntax but rejected", shown.c_str(), root); break; }
        if (verdict == 0 && p) { o = failf("path '%s' (root=%d) is outside the documented syntax/limits but accepted (%zu components)", shown.c_str(), root, attr_path_num_comps(p)); break; }
        if (verdict != 1) { c.nt(); }
        if (!p) break;
        size_t n = attr_path_num_comps(p);
        if (n > 64) { o = failf("path '%s': %zu components exceed the limit", shown.c_str(), n); break; }
        if (verdict == 1) {
            if (n != ref.size()) { o = failf("path '%s': %zu components, reference %zu", shown.c_str(), n, ref.size()); break; }
            for (size_t i = 0; i < n && o.ok; i++) {
                const struct attr_pcomp *pc = attr_path_get_comp(p, i);
                if (attr_pcomp_is_key(pc) != ref[i].is_key) o = failf("path '%s': component %zu kind differs", shown.c_str(), i);
                else if (ref[i].is_key && ref[i].key != attr_pcomp_get_key(pc)) o = failf("path '%s': key %zu differs", shown.c_str(), i);
                else if (!ref[i].is_key && ref[i].idx != attr_pcomp_get_index(pc)) o = failf("path '%s': index %zu differs", shown.c_str(), i);
            }
            if (!o.ok) break;
        }
        if (root && n > 0 && !attr_pcomp_is_key(attr_path_get_comp(p, 0))) break; // to_str(root) asserts key
        char *str = attr_path_to_str(p, root);
        size_t plen = attr_path_len(p, root);
        if (plen != strlen(str)) { o = failf("path '%s': attr_path_len %zu != strlen(to_str) %zu", shown.c_str(), plen, strlen(str)); free(str); break; }
        if (verdict == 1 && canon(ref, root) != str) { o = failf("path '%s' prints as '%s', canonical form is '%s'", shown.c_str(), str, canon(ref, root).c_str()); free(str); break; }
        if (strlen(str) <= 255) {
            struct attr_path *p2 = attr_path_parse(str, root);
            if (!p2) o = failf("printed path '%s' (from '%s') does not parse", str, shown.c_str());
            else {
                if (!attr_path_equal(p, p2)) o = failf("parse(print(parse('%s'))) != parse('%s')", shown.c_str(), shown.c_str());
                char *str2 = attr_path_to_str(p2, root);
                if (o.ok && strcmp(str, str2) != 0) o = failf("print is not a fixed point: '%s' vs '%s'", str, str2);
                free(str2);
                attr_path_destroy(p2);
            }
            if (o.ok && !attr_path_equal_str(p, hs, root)) o = failf("attr_path_equal_str(parse('%s'), same string) is false", shown.c_str());
        }
        free(str);
        count("paths_roundtripped");
    } while (0);
    if (p) attr_path_destroy(p);
    free(hs);
    return o;
}

class C19 : public Harness {
public:
    const char *property() override { return "C19"; }
    size_t cfg_len() override { return 1; }
    size_t step_len() override { return 12; }
    size_t max_steps() override { return 80; }

    Outcome run(const Plan &p, Case &c) override
    {
        struct xcm_attr_map *maps[NSLOTS];
        Model models[NSLOTS];
        for (int i = 0; i < NSLOTS; i++) maps[i] = xcm_attr_map_create();
        Outcome o = Outcome::pass();
        bool replaced = false, cloned_then_mutated = false, clone_pending[NSLOTS] = {false};
        for (auto &st : p.steps) {
            Dec d(st);
            uint32_t op = d.ch(20);
            int i = d.ch(NSLOTS), j = d.ch(NSLOTS);
            if (op < 6) { // add
                std::string name = gen_name(d);
                Val v = gen_val(d);
                // caller's buffers are exact-size heap blocks, scribbled on afterwards
                char *hn = strdup(name.c_str());
                char *hv = (char *)malloc(v.bytes.size() ? v.bytes.size() : 1);
                memcpy(hv, v.bytes.data(), v.bytes.size());
                bool typed = d.flag();
                if (!typed) xcm_attr_map_add(maps[i], hn, (enum xcm_attr_type)v.type, hv, v.bytes.size());
                else switch (v.type) {
                    case xcm_attr_type_bool: xcm_attr_map_add_bool(maps[i], hn, *(bool *)hv); break;
                    case xcm_attr_type_int64: { int64_t x; memcpy(&x, hv, 8); xcm_attr_map_add_int64(maps[i], hn, x); break; }
                    case xcm_attr_type_double: { double x; memcpy(&x, hv, 8); xcm_attr_map_add_double(maps[i], hn, x); break; }
                    case xcm_attr_type_str: xcm_attr_map_add_str(maps[i], hn, hv); break;
                    default: xcm_attr_map_add_bin(maps[i], hn, hv, v.bytes.size());
                    }
                memset(hn, 'Z', strlen(hn));
                memset(hv, 0x5a, v.bytes.size());
                free(hn);
                free(hv);
                if (models[i].count(name)) replaced = true;
                if (clone_pending[i]) cloned_then_mutated = true;
                models[i][name] = v;
                c.log("add[%d] '%s' type %d len %zu", i, name.substr(0, 20).c_str(), v.type, v.bytes.size());
            } else if (op < 9) { // del (existing key preferred)
                std::string name;
                if (!models[i].empty() && d.ch(4)) { auto it = models[i].begin(); std::advance(it, d.raw() % models[i].size()); name = it->first; }
                else name = gen_name(d);
                xcm_attr_map_del(maps[i], name.c_str());
                models[i].erase(name);
                if (clone_pending[i]) cloned_then_mutated = true;
                c.log("del[%d] '%s'", i, name.substr(0, 20).c_str());
            } else if (op < 11) { // lookup of a possibly absent key
                std::string name = gen_name(d);
                enum xcm_attr_type t;
                size_t len;
                const void *v = xcm_attr_map_get(maps[i], name.c_str(), &t, &len);
                bool has = models[i].count(name) > 0;
                if ((v != nullptr) != has) o = failf("get[%d]('%s') %s but model %s it", i, name.c_str(), v ? "found" : "missing", has ? "has" : "lacks");
                if (o.ok && xcm_attr_map_exists(maps[i], name.c_str()) != has) o = failf("exists[%d]('%s') wrong", i, name.c_str());
            } else if (op < 13) { // clone i -> j
                if (i != j) {
                    xcm_attr_map_destroy(maps[j]);
                    maps[j] = xcm_attr_map_clone(maps[i]);
                    models[j] = models[i];
                    clone_pending[i] = clone_pending[j] = true;
                    c.log("clone %d -> %d", i, j);
                }
            } else if (op < 15) { // add_all i -> j (incl. i == j)
                xcm_attr_map_add_all(maps[j], maps[i]);
                if (i != j) for (auto &kv : models[i]) { if (models[j].count(kv.first)) replaced = true; models[j][kv.first] = kv.second; }
                clone_pending[i] = true;
                c.log("add_all %d -> %d", i, j);
            } else if (op < 17) { // equal
                if (i != j && !models[i].empty() && d.ch(3) == 0) {
                    // a near miss first: one key of map i goes into map j with one bit of its value
                    // changed (the sign bit of a double: 0.0 / -0.0; the first byte of anything else)
                    auto it = models[i].begin();
                    std::advance(it, d.raw() % models[i].size());
                    Val v = it->second;
                    bool changed = false;
                    if (v.type == xcm_attr_type_double) { v.bytes[7] ^= (char)0x80; changed = true; }
                    else if (v.type == xcm_attr_type_bool) { v.bytes[0] ^= 1; changed = true; }
                    else if (v.type == xcm_attr_type_str) { if (v.bytes.size() > 1) { v.bytes[0] = v.bytes[0] == 'q' ? 'r' : 'q'; changed = true; } }
                    else if (!v.bytes.empty()) { v.bytes[0] ^= 1; changed = true; }
                    if (changed) {
                        xcm_attr_map_add(maps[j], it->first.c_str(), (enum xcm_attr_type)v.type, v.bytes.data(), v.bytes.size());
                        if (models[j].count(it->first)) replaced = true;
                        if (clone_pending[j]) cloned_then_mutated = true;
                        models[j][it->first] = v;
                        c.cls("map:near-miss-before-equal");
                        c.log("near miss: '%s' of map %d into map %d with one bit changed", it->first.substr(0, 20).c_str(), i, j);
                    }
                }
                bool eq = xcm_attr_map_equal(maps[i], maps[j]);
                bool ref = models[i] == models[j];
                if (eq != ref) o = failf("equal(%d,%d)=%d but the models are %s", i, j, (int)eq, ref ? "equal" : "different");
                if (o.ok && xcm_attr_map_equal(maps[j], maps[i]) != eq) o = failf("equal is not symmetric (%d,%d)", i, j);
                if (ref && i != j) c.cls("map:equal-distinct-maps");
            } else if (op < 18) { // destroy + fresh
                xcm_attr_map_destroy(maps[i]);
                maps[i] = xcm_attr_map_create();
                models[i].clear();
            } else { // path probe
                std::string s = gen_path(d, c);
                bool root = d.ch(4) != 0;
                o = check_path(s, root, c);
                if (o.ok && s.find('[') != std::string::npos) c.nt();
            }
            if (!o.ok) break;
            // after every op all slots agree with the model (clones unaffected)
            for (int k = 0; k < NSLOTS && o.ok; k++) o = compare_slot(maps[k], models[k], "after op");
            if (!o.ok) break;
        }
        // insertion-order independence: rebuild slot 0 in reverse order and compare
        if (o.ok && !models[0].empty()) {
            struct xcm_attr_map *rev = xcm_attr_map_create();
            for (auto it = models[0].rbegin(); it != models[0].rend(); ++it)
                xcm_attr_map_add(rev, it->first.c_str(), (enum xcm_attr_type)it->second.type, it->second.bytes.data(), it->second.bytes.size());
            if (!xcm_attr_map_equal(maps[0], rev) || !xcm_attr_map_equal(rev, maps[0]))
                o = failf("a map rebuilt in another insertion order is not equal to the original");
            xcm_attr_map_destroy(rev);
        }
        for (int i = 0; i < NSLOTS; i++) xcm_attr_map_destroy(maps[i]);
        if (replaced && cloned_then_mutated) { c.nt(); c.cls("map:replace+clone-then-mutate"); }
        return o;
    }
};

} // namespace

namespace vf {
Harness *make_harness() { return new C19(); }
}
