// Data-path interpreter shared by C01 (messaging delivery), C02 (byte-stream
// delivery), C03 (failed send leaves no trace), C17 (counters).  A plan is a
// configuration + steps on either endpoint of a real XCM connection whose
// kernel I/O goes through the shim (short reads/writes, EAGAIN).  Oracle: the
// ledger of accepted sends (reference model).
#include "vf.h"
#include "xpair.h"
#include <sys/socket.h>
#include <netinet/in.h>
#include <arpa/inet.h>

#include <algorithm>
#include <pthread.h>

using namespace vf;
using namespace xp;

namespace {

// "far larger" lengths (C03): what a 32-bit truncation of the length would turn into 0, a small
// legal size, or the maximum; the library must refuse them with EMSGSIZE before reading anything
const uint32_t FAR = 0xffffff00u;
const size_t FAR_LEN[] = {((size_t)1 << 32) + 1, ((size_t)1 << 32) + 5, ((size_t)1 << 32) + 65535, ((size_t)3 << 32) + 4711,
                          (size_t)1 << 32, ~(size_t)0, ((size_t)1 << 63) + 100};


enum Mode { M_C01, M_C02, M_C03, M_C17 };
Mode g_mode = M_C01;

const char *CNT_NAMES[8] = {"xcm.to_app_bytes", "xcm.from_app_bytes", "xcm.to_lower_bytes",
                            "xcm.from_lower_bytes", "xcm.to_app_msgs", "xcm.from_app_msgs",
                            "xcm.to_lower_msgs", "xcm.from_lower_msgs"};
enum { TO_APP_B, FROM_APP_B, TO_LOWER_B, FROM_LOWER_B, TO_APP_M, FROM_APP_M, TO_LOWER_M, FROM_LOWER_M };

struct Dir {
    std::vector<std::pair<uint32_t, uint32_t>> msgs; // (tag,len) accepted, messaging
    size_t delivered = 0;
    std::string bytes; // accepted bytes, byte stream
    size_t off = 0;
    // known-finding exclusion (btls): bytes of a refused send that is being
    // retried identically may reach the peer before the retry reports them
    std::string pending;
    uint64_t acc_msgs = 0, acc_bytes = 0; // accepted from the sending app
    // sends that failed with a terminal (connection-failure) errno: whether
    // the counters include them is not specified by C17/C03 -> tolerated
    uint64_t slack_msgs = 0, slack_bytes = 0;
    uint64_t dlv_msgs = 0, dlv_bytes = 0; // handed to the receiving app (as returned)
    uint64_t dlv_full_bytes = 0;          // untruncated lengths of delivered messages
};

struct Side {
    Ep ep;
    const char *name;
    bool have_cnt = false;
    int64_t cnt[8] = {0};
    // btls known finding: remember a refused send
    bool refused = false;
    uint32_t refused_tag = 0, refused_len = 0;
    bool fault_injected = false; // a hard send() failure was scripted below this side: its connection may die of it
    bool refused_unretried = false; // ever: a btls send was refused and not retried with the identical buffer at once
    const char *kfq() const { return refused_unretried ? " [this sender had a btls send refused with EAGAIN that was not retried identically]" : ""; }
    bool last_recv_truncated = false;
    bool failed = false; // a non-EAGAIN error was seen (after peer close)
};

std::vector<uint8_t> g_buf, g_rbuf;

// A blocking endpoint runs its calls in its own thread; the main thread keeps
// the (non-blocking) peer pumping meanwhile.
struct BlockOp {
    enum { NONE, SEND, RECV, QUIT } type = NONE;
    Ep *ep = nullptr;
    void *buf = nullptr;
    size_t len = 0;
    int rc = 0, err = 0;
    bool done = true;
};
struct Worker {
    pthread_t th;
    pthread_mutex_t mu = PTHREAD_MUTEX_INITIALIZER;
    pthread_cond_t cv = PTHREAD_COND_INITIALIZER;
    BlockOp op;
    bool started = false;
    static void *main(void *arg)
    {
        Worker *w = (Worker *)arg;
        for (;;) {
            pthread_mutex_lock(&w->mu);
            while (w->op.done) pthread_cond_wait(&w->cv, &w->mu);
            BlockOp op = w->op;
            pthread_mutex_unlock(&w->mu);
            if (op.type == BlockOp::QUIT) break;
            int rc = 0;
            errno = 0;
            if (op.type == BlockOp::SEND) rc = x_send(*op.ep, op.buf, op.len);
            else if (op.type == BlockOp::RECV) rc = x_receive(*op.ep, op.buf, op.len);
            int e = errno;
            pthread_mutex_lock(&w->mu);
            w->op.rc = rc;
            w->op.err = e;
            w->op.done = true;
            pthread_cond_broadcast(&w->cv);
            pthread_mutex_unlock(&w->mu);
        }
        return nullptr;
    }
    void start()
    {
        if (started) return;
        started = true;
        pthread_create(&th, nullptr, main, this);
    }
    void post(int type, Ep *ep, void *buf, size_t len)
    {
        start();
        pthread_mutex_lock(&mu);
        op.type = (decltype(op.type))type;
        op.ep = ep; op.buf = buf; op.len = len; op.done = false;
        pthread_cond_broadcast(&cv);
        pthread_mutex_unlock(&mu);
    }
    bool poll_done(int *rc, int *err)
    {
        pthread_mutex_lock(&mu);
        bool d = op.done;
        if (d) { *rc = op.rc; *err = op.err; }
        pthread_mutex_unlock(&mu);
        return d;
    }
    void stop()
    {
        if (!started) return;
        post(BlockOp::QUIT, nullptr, nullptr, 0);
        pthread_join(th, nullptr);
        started = false;
        op.done = true;
    }
};
Worker g_worker;

double now_s()
{
    struct timespec ts;
    clock_gettime(CLOCK_MONOTONIC, &ts);
    return ts.tv_sec + ts.tv_nsec / 1e9;
}

struct Run {
    Case &c;
    int tp;
    bool bs;
    Side s[2];
    Dir d[2]; // d[i] = data sent by side i (to side 1-i)
    bool trunc_then_recv = false;
    int graceful_closer = -1; // side that closed after xcm_finish had returned 0 with nothing unread
    uint64_t refused_sends = 0, refused_pending = 0, failed_sends_nontrivial = 0;
    uint64_t partial_accepts = 0;
    int eintr_next = 0;
    uint64_t eintr_hits = 0;
    bool failed_blocking_bytes = false;
    std::vector<std::pair<uint32_t, uint32_t>> failed_blocking_sends;
    Run(Case &cc) : c(cc) {}

    bool check_counters() const { return g_mode == M_C17 || g_mode == M_C03; }

    Outcome read_counters(int i, const char *when)
    {
        Side &sd = s[i];
        if (sd.ep.closed) return Outcome::pass();
        int n = bs ? 4 : 8;
        int64_t v[8] = {0};
        for (int k = 0; k < n; k++) {
            bool ok;
            v[k] = x_cnt(sd.ep, CNT_NAMES[k], &ok);
            VF_CHECK(ok, "C17: %s: attribute %s unreadable (%s) %s", sd.name, CNT_NAMES[k], errname(errno), when);
        }
        if (sd.have_cnt)
            for (int k = 0; k < n; k++)
                VF_CHECK(v[k] >= sd.cnt[k], "C17: %s: %s decreased %ld -> %ld %s", sd.name,
                         CNT_NAMES[k], (long)sd.cnt[k], (long)v[k], when);
        memcpy(sd.cnt, v, sizeof(v));
        sd.have_cnt = true;
        Dir &out = d[i], &in = d[1 - i];
        VF_CHECK(v[FROM_APP_B] >= (int64_t)out.acc_bytes && v[FROM_APP_B] <= (int64_t)(out.acc_bytes + out.slack_bytes),
                 "C17: %s: from_app_bytes=%ld but the application had %lu bytes accepted %s", sd.name,
                 (long)v[FROM_APP_B], (unsigned long)out.acc_bytes, when);
        VF_CHECK(v[TO_APP_B] == (int64_t)in.dlv_bytes,
                 "C17: %s: to_app_bytes=%ld but the application was handed %lu bytes %s", sd.name,
                 (long)v[TO_APP_B], (unsigned long)in.dlv_bytes, when);
        VF_CHECK(v[FROM_APP_B] >= v[TO_LOWER_B], "C17: %s: from_app_bytes %ld < to_lower_bytes %ld %s",
                 sd.name, (long)v[FROM_APP_B], (long)v[TO_LOWER_B], when);
        VF_CHECK(v[FROM_LOWER_B] >= v[TO_APP_B], "C17: %s: from_lower_bytes %ld < to_app_bytes %ld %s",
                 sd.name, (long)v[FROM_LOWER_B], (long)v[TO_APP_B], when);
        if (!bs) {
            VF_CHECK(v[FROM_APP_M] >= (int64_t)out.acc_msgs && v[FROM_APP_M] <= (int64_t)(out.acc_msgs + out.slack_msgs),
                     "C17: %s: from_app_msgs=%ld but %lu sends were accepted %s", sd.name,
                     (long)v[FROM_APP_M], (unsigned long)out.acc_msgs, when);
            VF_CHECK(v[TO_APP_M] == (int64_t)in.dlv_msgs,
                     "C17: %s: to_app_msgs=%ld but %lu receives succeeded %s", sd.name,
                     (long)v[TO_APP_M], (unsigned long)in.dlv_msgs, when);
            VF_CHECK(v[FROM_APP_M] >= v[TO_LOWER_M], "C17: %s: from_app_msgs < to_lower_msgs %s", sd.name, when);
            VF_CHECK(v[FROM_LOWER_M] >= v[TO_APP_M], "C17: %s: from_lower_msgs < to_app_msgs %s", sd.name, when);
            // what came from below are whole messages of the ledger, in order
            VF_CHECK(v[FROM_LOWER_M] <= (int64_t)in.acc_msgs,
                     "C17: %s: from_lower_msgs=%ld exceeds the %lu messages the peer had accepted %s",
                     sd.name, (long)v[FROM_LOWER_M], (unsigned long)in.acc_msgs, when);
            uint64_t sum = 0;
            for (int64_t k = 0; k < v[FROM_LOWER_M] && k < (int64_t)in.msgs.size(); k++) sum += in.msgs[k].second;
            VF_CHECK(v[FROM_LOWER_B] == (int64_t)sum,
                     "C17: %s: from_lower_bytes=%ld but the first %ld accepted messages total %lu bytes %s",
                     sd.name, (long)v[FROM_LOWER_B], (long)v[FROM_LOWER_M], (unsigned long)sum, when);
            sum = 0;
            for (int64_t k = 0; k < v[TO_LOWER_M] && k < (int64_t)out.msgs.size(); k++) sum += out.msgs[k].second;
            VF_CHECK(v[TO_LOWER_B] == (int64_t)sum,
                     "C17: %s: to_lower_bytes=%ld but the first %ld accepted messages total %lu bytes %s",
                     sd.name, (long)v[TO_LOWER_B], (long)v[TO_LOWER_M], (unsigned long)sum, when);
        } else {
            VF_CHECK(v[FROM_LOWER_B] <= (int64_t)in.acc_bytes, "C17: %s: from_lower_bytes exceeds what the peer accepted %s", sd.name, when);
        }
        return Outcome::pass();
    }

    Outcome counters_both(const char *when)
    {
        if (!check_counters()) return Outcome::pass();
        for (int i = 0; i < 2; i++) {
            Outcome o = read_counters(i, when);
            if (!o.ok) return o;
        }
        return Outcome::pass();
    }

    // Which errno a side reports after the harness closed its peer is C06's
    // business (a TLS peer closing with an unflushed record legitimately
    // yields EPROTO); here any terminal errno is fine once the peer is gone.
    // Run a call of blocking side i in the worker thread while the main thread
    // keeps the non-blocking peer receiving/finishing (ledger-checked).
    Outcome blocking_call(int i, int type, void *buf, size_t len, int *rc, int *err)
    {
        Side &sd = s[i];
        g_worker.post(type, &sd.ep, buf, len);
        double t0 = now_s();
        int spins = 0;
        while (!g_worker.poll_done(rc, err)) {
            Side &peer = s[1 - i];
            if (!peer.ep.closed && !peer.ep.blocking) {
                Outcome o = do_finish(1 - i);
                if (!o.ok) { wait_done(rc, err); return o; }
                if (type == BlockOp::SEND && !peer.failed) {
                    o = do_recv(1 - i, 70000);
                    if (!o.ok) { wait_done(rc, err); return o; }
                }
            }
            if (++spins > 50) usleep(200);
            if (now_s() - t0 > 10.0) {
                // bounded-liveness reading of C04 for blocking calls
                wait_done(rc, err, true);
                return failf("C04: blocking %s on %s did not return within 10 s although the peer kept %s",
                             type == BlockOp::SEND ? "xcm_send" : "xcm_receive", sd.name,
                             type == BlockOp::SEND ? "receiving" : "flushing an accepted message");
            }
        }
        return Outcome::pass();
    }
    void wait_done(int *rc, int *err, bool force = false)
    {
        // make the blocked call return: close the peer
        if (force) for (int k = 0; k < 2; k++) if (!s[k].ep.blocking && !s[k].ep.closed) x_close(s[k].ep);
        double t0 = now_s();
        while (!g_worker.poll_done(rc, err) && now_s() - t0 < (force ? 20 : 3)) usleep(1000);
        if (g_worker.poll_done(rc, err)) return;
        // the verdict is in already; the call must come back before its socket and buffer can be released
        for (int k = 0; k < 2; k++) if (!s[k].ep.blocking && !s[k].ep.closed) x_close(s[k].ep);
        t0 = now_s();
        while (!g_worker.poll_done(rc, err) && now_s() - t0 < 10) usleep(1000);
        if (g_worker.poll_done(rc, err)) return;
        for (int k = 0; k < 2; k++)
            if (s[k].ep.blocking && !s[k].ep.closed) { int fd = sh_data_fd(s[k].ep.tag); if (fd >= 0) shutdown(fd, SHUT_RDWR); }
        t0 = now_s();
        while (!g_worker.poll_done(rc, err) && now_s() - t0 < 10) usleep(1000);
        if (g_worker.poll_done(rc, err)) return;
        // the thread is inside the library for good and owns the socket and the buffer: this process
        // cannot go on.  The plan in <prefix>.current is the failing input.
        printf("FAILED: C04: a blocking XCM call did not return within 40 s of its peer closing and its own connection being shut down\n");
        fflush(stdout);
        _exit(3);
    }

    bool errno_ok_after_peer_gone(int e) { return e != EAGAIN && e != 0; }

    // ---- SEND
    Outcome do_send(int i, uint32_t tag, uint32_t len)
    {
        Side &sd = s[i];
        Side &peer = s[1 - i];
        if (sd.ep.closed) return Outcome::pass();
        Dir &out = d[i];
        size_t api_len = len;
        if (len >= FAR) {
            // the length passed to xcm_send is FAR_LEN[..]; the buffer holds 64 KiB (a correct
            // library refuses on the length alone; one that truncates it reads at most 65535 bytes)
            api_len = FAR_LEN[len - FAR];
            len = 65536;
        }
        if (g_buf.size() < len) g_buf.resize(len);
        // exact-size heap copy so that over-reads are visible to ASan
        uint8_t *buf = (uint8_t *)malloc(len ? len : 1);
        prf_fill(tag, buf, len);
        int64_t before[8];
        memcpy(before, sd.cnt, sizeof(before));
        bool had_cnt = sd.have_cnt;
        if (check_counters()) { Outcome o = read_counters(i, "before send"); if (!o.ok) { free(buf); return o; } memcpy(before, sd.cnt, sizeof(before)); had_cnt = true; }
        errno = 0;
        int rc, e;
        size_t tentative_msgs = out.msgs.size(), tentative_bytes = out.bytes.size();
        bool was_blocking = sd.ep.blocking;
        if (sd.ep.blocking) {
            // The peer may legitimately obtain the data before the blocking call
            // returns: enter it tentatively, commit or retract afterwards.
            if (!bs) { if (len >= 1 && len <= 65535) out.msgs.push_back({tag, len}); }
            else out.pending.assign((const char *)buf, len);
            int eintr_n = eintr_next;
            eintr_next = 0;
            if (eintr_n) { sh_eintr_at(eintr_n); }
            Outcome bo = blocking_call(i, BlockOp::SEND, buf, api_len, &rc, &e);
            bool hit = eintr_n && rc < 0 && e == EINTR;
            sh_eintr_at(0);
            if (hit) { c.cls("eintr-injected-into-blocking-send"); eintr_hits++; }
            if (!bo.ok) { free(buf); return bo; }
            if (!bs) {
                if (out.msgs.size() > tentative_msgs) {
                    if (rc != 0) {
                        // failed: the tentative message must not have been delivered
                        if (out.delivered > tentative_msgs) {
                            free(buf);
                            return failf("C03: blocking xcm_send returned -1 (%s) but the message (tag %u, len %u) was delivered to the peer", errname(e), tag, len);
                        }
                        out.msgs.pop_back();
                        failed_blocking_sends.push_back({tag, len});
                    } else
                        out.msgs.pop_back(); // re-added by the common path below
                }
            } else {
                size_t got_early = out.off > out.bytes.size() ? out.off - out.bytes.size() : 0;
                out.pending.clear();
                if (got_early > (size_t)(rc > 0 ? rc : 0)) {
                    free(buf);
                    return failf("C02: blocking xcm_send(len %u) returned %d (%s) but %zu of its bytes were received by the peer", len, rc, rc < 0 ? errname(e) : "", got_early);
                }
                if (rc < 0 && e != EAGAIN) failed_blocking_bytes = true;
            }
        } else {
            rc = x_send(sd.ep, buf, api_len);
            e = errno;
        }
        (void)tentative_bytes; (void)was_blocking;
        c.log("%s %ssend(tag=%u,len=%zu) -> %d %s", sd.name, sd.ep.blocking ? "blocking " : "", tag, api_len, rc, rc < 0 ? errname(e) : "");
        if (api_len != len) c.cls("send-length-beyond-32-bits");
        if (tp == BTLS && rc < 0 && e == EAGAIN && excluded("btls-refused-send-not-retried-identically")) {
            // Known finding (see known_findings.json): a btls send refused with
            // EAGAIN leaves its record inside OpenSSL, which transmits it later
            // whatever the application does next.  Excluded by construction: the
            // application retries the identical buffer at once until accepted,
            // the peer draining meanwhile.
            count_exclusion("btls-refused-send-not-retried-identically");
            refused_sends++;
            out.pending.assign((const char *)buf, len);
            for (int attempt = 0; attempt < 4000 && rc < 0 && e == EAGAIN; attempt++) {
                Outcome ro = do_recv(1 - i, 70000);
                if (!ro.ok) { free(buf); return ro; }
                errno = 0;
                rc = x_send(sd.ep, buf, len);
                e = errno;
                if (rc < 0 && e == EAGAIN && attempt > 20) fd_readable(sd.ep.fd, 1);
            }
            c.log("%s   identical retry -> %d %s", sd.name, rc, rc < 0 ? errname(e) : "");
            out.pending.clear();
            if (out.off > out.bytes.size() + (rc > 0 ? rc : 0)) {
                // delivered although finally not accepted: the known finding itself
                size_t extra = out.off - out.bytes.size() - (rc > 0 ? rc : 0);
                (void)extra;
                free(buf);
                return failf("C02: %zu bytes of a refused btls send were received by the peer although the identical retries accepted only %d", out.off - out.bytes.size(), rc);
            }
        }
        free(buf);
        if (!bs) {
            VF_CHECK(rc == 0 || rc == -1, "C01: xcm_send returned %d on a messaging socket", rc);
            if (len == 0) VF_CHECK(rc == -1 && e == EINVAL, "C03: zero-length send: rc=%d errno=%s (want -1/EINVAL)", rc, errname(e));
            if (len > 65535) VF_CHECK(rc == -1 && e == EMSGSIZE, "C03: %zu-byte send: rc=%d errno=%s (want -1/EMSGSIZE)", api_len, rc, errname(e));
            if (rc == 0) {
                out.msgs.push_back({tag, len});
                out.acc_msgs++;
                out.acc_bytes += len;
            }
        } else {
            VF_CHECK(rc == -1 || (rc >= 1 && (uint32_t)rc <= len) || (len == 0 && rc == 0),
                     "C02: xcm_send(len=%u) returned %d", len, rc);
            if (rc > 0) {
                size_t o0 = out.bytes.size();
                out.bytes.resize(o0 + rc);
                prf_fill(tag, (uint8_t *)&out.bytes[o0], rc);
                out.acc_bytes += rc;
                if ((uint32_t)rc < len) { partial_accepts++; c.cls("bytestream:partial-accept"); }
            }
        }
        if (rc < 0) {
            if (e == EAGAIN) {
                refused_sends++;
                if (!bs && x_cnt(sd.ep, CNT_NAMES[FROM_APP_M]) > x_cnt(sd.ep, CNT_NAMES[TO_LOWER_M])) refused_pending++;
                if (tp == BTLS) sd.refused_unretried = true;
                if (tp == BTLS) { if (!sd.refused || tag != sd.refused_tag) { sd.refused_tag = tag; sd.refused_len = len; } else sd.refused_len = std::max(sd.refused_len, len); sd.refused = true; }
            } else if (e == EINTR && sd.ep.blocking) {
                // interrupted blocking wait: no trace (checked above / at the end)
            } else if (e == EINVAL || e == EMSGSIZE) {
                c.cls("send-invalid-size");
                VF_CHECK((e == EINVAL && len == 0) || (e == EMSGSIZE && len > 65535),
                         "C03: send(len=%u) failed with %s", len, errname(e));
            } else {
                VF_CHECK((peer.ep.closed || sd.fault_injected) && errno_ok_after_peer_gone(e),
                         "C01: %s: xcm_send failed with %s while the peer is alive and nothing was injected%s",
                         sd.name, errname(e), sd.kfq());
                sd.failed = true;
                out.slack_msgs++;
                out.slack_bytes += len;
            }
            if ((e == EAGAIN || e == EINVAL || e == EMSGSIZE || (e == EINTR && !bs)) && check_counters()) {
                // no trace: from_app / to_app / from_lower unchanged by the failed call
                Outcome o = read_counters(i, "after refused send");
                if (!o.ok) return o;
                int n = bs ? 4 : 8;
                for (int k = 0; k < n; k++) {
                    if (k == TO_LOWER_B || k == TO_LOWER_M) continue; // earlier frames may be flushed
                    VF_CHECK(!had_cnt || sd.cnt[k] == before[k],
                             "C03: %s: send failed with %s but %s changed %ld -> %ld", sd.name,
                             errname(e), CNT_NAMES[k], (long)before[k], (long)sd.cnt[k]);
                }
            }
        } else if (tp == BTLS)
            sd.refused = false;
        return Outcome::pass();
    }

    // ---- RECEIVE
    Outcome do_recv(int i, size_t cap, bool *got = nullptr)
    {
        Side &sd = s[i];
        Side &peer = s[1 - i];
        if (got) *got = false;
        if (sd.ep.closed) return Outcome::pass();
        Dir &in = d[1 - i];
        uint8_t *buf = (uint8_t *)malloc(cap ? cap : 1);
        memset(buf, 0xEE, cap);
        errno = 0;
        int rc, e;
        if (sd.ep.blocking) {
            // only when something is owed (else the call would rightly block for ever)
            bool owed = bs ? in.off < in.bytes.size() : in.delivered < in.msgs.size();
            if (!owed && !peer.ep.closed) { free(buf); return Outcome::pass(); }
            Outcome bo = blocking_call(i, BlockOp::RECV, buf, cap, &rc, &e);
            if (!bo.ok) { free(buf); return bo; }
            c.cls("blocking-receive");
        } else {
            rc = x_receive(sd.ep, buf, cap);
            e = errno;
        }
        if (rc != -1 || e != EAGAIN || c.trace.size() < 20000)
            c.log("%s receive(cap=%zu) -> %d %s", sd.name, cap, rc, rc < 0 ? errname(e) : "");
        Outcome o = Outcome::pass();
        do {
            if (rc > 0) {
                if (got) *got = true;
                if ((size_t)rc > cap) { o = failf("C01: xcm_receive returned %d > capacity %zu", rc, cap); break; }
                if (!bs) {
                    if (in.delivered >= in.msgs.size()) {
                        o = failf("C01: %s received a %d-byte message (%s) but all %zu accepted messages were already delivered (duplicate or invented)",
                                  sd.name, rc, hex(buf, rc, 16).c_str(), in.msgs.size());
                        break;
                    }
                    auto m = in.msgs[in.delivered];
                    size_t want = std::min<size_t>(m.second, cap);
                    if ((size_t)rc != want) {
                        o = failf("C01: %s: message #%zu (len %u) received with capacity %zu returned %d, expected %zu",
                                  sd.name, in.delivered, m.second, cap, rc, want);
                        break;
                    }
                    for (int k = 0; k < rc; k++)
                        if (buf[k] != prf_byte(m.first, k)) {
                            o = failf("C01: %s: message #%zu (tag %u len %u) differs at byte %d: got %02x want %02x",
                                      sd.name, in.delivered, m.first, m.second, k, buf[k], prf_byte(m.first, k));
                            break;
                        }
                    if (!o.ok) break;
                    if (sd.last_recv_truncated) trunc_then_recv = true;
                    sd.last_recv_truncated = (size_t)rc < m.second;
                    if (sd.last_recv_truncated) c.cls("truncating-receive");
                    in.delivered++;
                    in.dlv_msgs++;
                    in.dlv_bytes += rc;
                    in.dlv_full_bytes += m.second;
                } else {
                    size_t total = in.bytes.size() + in.pending.size();
                    if (in.off + rc > total) {
                        o = failf("C02: %s received %d bytes but only %zu accepted bytes are outstanding%s",
                                  sd.name, rc, total - in.off, s[1 - i].kfq());
                        break;
                    }
                    int bad = -1;
                    for (int k = 0; k < rc && bad < 0; k++) {
                        size_t pos = in.off + k;
                        uint8_t want = pos < in.bytes.size() ? (uint8_t)in.bytes[pos] : (uint8_t)in.pending[pos - in.bytes.size()];
                        if (buf[k] != want) bad = k;
                    }
                    if (bad >= 0) {
                        o = failf("C02: %s: stream differs at offset %zu (received stream is not a prefix of the accepted bytes)%s",
                                  sd.name, in.off + bad, s[1 - i].kfq());
                        break;
                    }
                    in.off += rc;
                    in.dlv_bytes += rc;
                }
            } else if (rc == 0) {
                if (!peer.ep.closed) { o = failf("C01: %s: xcm_receive returned 0 (peer closed) while the peer is alive", sd.name); break; }
                sd.failed = true;
            } else {
                if (e == EAGAIN) break;
                if (!((peer.ep.closed || sd.fault_injected) && errno_ok_after_peer_gone(e))) {
                    o = failf("C01: %s: xcm_receive failed with %s while the peer is alive and nothing was injected", sd.name, errname(e));
                    break;
                }
                sd.failed = true;
            }
        } while (0);
        // bytes beyond rc must be untouched
        if (o.ok && rc >= 0)
            for (size_t k = rc; k < cap; k++)
                if (buf[k] != 0xEE) { o = failf("C01: receive wrote beyond the returned length (offset %zu, rc %d)", k, rc); break; }
        free(buf);
        return o;
    }

    Outcome do_finish(int i)
    {
        Side &sd = s[i];
        if (sd.ep.closed || sd.ep.blocking) return Outcome::pass();
        int rc = x_finish(sd.ep);
        int e = errno;
        if (rc < 0 && e != EAGAIN) {
            VF_CHECK((s[1 - i].ep.closed || sd.fault_injected) && errno_ok_after_peer_gone(e),
                     "C01: %s: xcm_finish failed with %s while the peer is alive", sd.name, errname(e));
            sd.failed = true;
        }
        return Outcome::pass();
    }

    // The textbook orderly shutdown: everything the peer sent has been received, xcm_finish has
    // returned 0, then xcm_close.  What this side had successfully sent must then all arrive.
    // Returns false (nothing done) when the situation does not allow a clean judgement.
    bool graceful_close(int i, Outcome &o)
    {
        Side &sd = s[i], &peer = s[1 - i];
        if (sd.ep.closed || peer.ep.closed || sd.failed || peer.failed || sd.ep.blocking || peer.ep.blocking) return false;
        if (sd.fault_injected || peer.fault_injected) return false;
        // a TLS client may still have the server's session tickets unread: closing then resets
        if (uses_tls(tp) && i == 0) return false;
        sh_clear(sd.ep.tag);
        sh_clear(peer.ep.tag);
        // 1. the other direction is delivered completely, and this side's receive queue is empty
        for (int k = 0; k < 4000 && o.ok && !all_delivered(1 - i); k++) { o = do_finish(1 - i); if (o.ok) o = do_recv(i, 70000); if (!all_delivered(1 - i)) usleep(100); }
        if (!o.ok || !all_delivered(1 - i) || sd.failed || peer.failed) return false;
        // 2. this side's socket finishes its outstanding work (the peer keeps reading meanwhile)
        bool finished = false;
        for (int k = 0; k < 8000 && o.ok && !finished; k++) {
            int rc = x_finish(sd.ep);
            if (rc == 0) { finished = true; break; }
            if (errno != EAGAIN) return false;
            o = do_recv(1 - i, 70000);
            usleep(100);
        }
        if (!o.ok || !finished || peer.failed) return false;
        bool got = false;
        o = do_recv(i, 70000, &got);
        if (!o.ok || got || sd.failed) return false;
        c.log("%s: everything received, xcm_finish == 0: close", sd.name);
        c.cls("close-after-finish-succeeded");
        x_close(sd.ep);
        graceful_closer = i;
        return true;
    }

    void push_script(int i, Dec &dd)
    {
        Side &sd = s[i];
        int dir = dd.flag() ? SH_SEND : SH_RECV;
        int n = (int)dd.range(1, 14);
        uint32_t seed = dd.raw();
        int style = dd.ch(6);
        static const int KS[] = {1, 1, 2, 3, 4, 5, 7, 8, 100, 1000, 4096, 16384, 16389};
        for (int k = 0; k < n; k++) {
            uint8_t b = prf_byte(seed, k);
            bool eagain = style == 0 ? (b % 3 == 0) : style == 1 ? false : style == 2 ? (k % 2 == 0) : style == 3 ? (b % 5 == 0) : false;
            if (eagain) sh_push(sd.ep.tag, (sh_dir)dir, SH_EAGAIN, 0);
            else if (style >= 4) sh_push(sd.ep.tag, (sh_dir)dir, SH_PASS, 1 + b % 3); // dribble: 1..3 bytes per call
            else sh_push(sd.ep.tag, (sh_dir)dir, SH_PASS, KS[prf_byte(seed, 100 + k) % (sizeof(KS) / sizeof(KS[0]))]);
        }
        c.log("%s script %s x%d style %d", sd.name, dir == SH_SEND ? "send" : "recv", n, style);
        // now and then the scripted writes end in a hard failure of send(): the connection may die of
        // it (then every later call says so and nothing more is delivered), but a message whose
        // xcm_send failed must not arrive later on, and one that was accepted not twice
        uint32_t hard = dd.raw();
        if (hard % 8 == 1 && dir == SH_SEND && (tp == TCP || tp == BTCP) && !sd.ep.blocking && !s[1 - i].ep.blocking) {
            static const int HE[] = {ENOBUFS, ENOMEM, ECONNRESET, ETIMEDOUT};
            int he = HE[(hard >> 3) % 4];
            sh_push(sd.ep.tag, SH_SEND, SH_FAIL, he);
            sd.fault_injected = true;
            c.cls("hard-send-failure-scripted");
            c.log("%s   ... then one send() fails with %s", sd.name, errname(he));
        }
    }

    bool all_delivered(int from)
    {
        return bs ? d[from].off == d[from].bytes.size() : d[from].delivered == d[from].msgs.size();
    }
};

uint32_t pick_len(Dec &dd, bool bs, bool c03)
{
    static const int B[] = {1, 2, 3, 4, 5, 255, 256, 4095, 4096, 16379, 16380, 16381, 16383, 16384,
                            16385, 32768, 65534, 65535};
    if (bs) {
        static const int BB[] = {1, 2, 100, 4096, 16383, 16384, 16385, 32768, 65536, 100000, 200000};
        return dd.ch(2) ? (uint32_t)dd.pick(BB) : (uint32_t)dd.range(1, 70000);
    }
    if (c03 && dd.ch(6) == 0) {
        // FAR + i: a length beyond 32 bits (see FAR_LEN), offered with a 64 KiB buffer
        static const uint32_t X[] = {0, 65536, 65537, 1 << 20, 32 << 20, FAR + 0, FAR + 1, FAR + 2, FAR + 3, FAR + 4, FAR + 5, FAR + 6};
        return dd.pick(X);
    }
    switch (dd.ch(4)) {
    case 0: return (uint32_t)dd.pick(B);
    case 1: return (uint32_t)dd.range(1, 300);
    default: return (uint32_t)dd.range(1, 65535);
    }
}

// A TLS handshake that fails on a socket of its own, in the thread that also drives the pair under
// test: a plain TCP client talks HTTP to a TLS server socket of the harness.  Nothing of it may be
// felt by the other connections of the thread.
Outcome bystander_tls_failure(Case &c)
{
    static Ep srv;
    static int port = 0;
    if (!srv.s) {
        srv.tag = 90;
        struct xcm_attr_map *m = xcm_attr_map_create();
        xcm_attr_map_add_bool(m, "xcm.blocking", false);
        srv.s = call(srv, [&] { return xcm_server_a("tls:127.0.0.1:0", m); });
        xcm_attr_map_destroy(m);
        if (!srv.s) return failf("harness: bystander TLS server: %s", errname(errno));
        srv.closed = false;
        const char *la = call(srv, [&] { return xcm_local_addr(srv.s); });
        const char *colon = la ? strrchr(la, ':') : nullptr;
        port = colon ? atoi(colon + 1) : 0;
    }
    int fd = socket(AF_INET, SOCK_STREAM, 0);
    struct sockaddr_in a;
    memset(&a, 0, sizeof(a));
    a.sin_family = AF_INET;
    a.sin_port = htons(port);
    a.sin_addr.s_addr = htonl(INADDR_LOOPBACK);
    if (connect(fd, (struct sockaddr *)&a, sizeof(a)) < 0) { close(fd); return failf("harness: bystander connect: %s", errname(errno)); }
    const char req[] = "GET / HTTP/1.0\r\nHost: bystander\r\n\r\n";
    if (write(fd, req, sizeof(req) - 1) < 0) {}
    Ep acc;
    acc.tag = 91;
    int verdict = 0;
    int acc_errno = 0;
    // (the handshake is attempted inside xcm_accept already: with the request waiting it fails there)
    for (int i = 0; i < 400 && !acc.s; i++) {
        acc.s = call(acc, [&] { return xcm_accept(srv.s); });
        acc_errno = errno;
        if (!acc.s && acc_errno != EAGAIN) { verdict = acc_errno; break; }
        if (!acc.s) usleep(500);
    }
    if (acc.s) {
        acc.closed = false;
        for (int i = 0; i < 400; i++) {
            int rc = x_finish(acc);
            if (rc == 0) break;
            if (errno != EAGAIN) { verdict = errno; break; }
            usleep(500);
        }
        x_close(acc);
    }
    close(fd);
    c.log("bystander: a TLS handshake with a non-TLS peer failed on another socket of this thread (%s)", verdict ? errname(verdict) : acc.s ? "no verdict" : errname(acc_errno));
    if (verdict) c.cls("tls-failure-on-another-socket-of-the-thread");
    return Outcome::pass();
}

class Datapath : public Harness {
public:
    const char *property() override
    {
        static const char *n[] = {"C01", "C02", "C03", "C17"};
        return n[g_mode];
    }
    size_t cfg_len() override { return 6; }
    size_t step_len() override { return 7; }
    size_t max_steps() override { return 120; }

    void teardown() override { g_worker.stop(); }
    void setup() override
    {
        const char *m = getenv("VF_PROP");
        std::string mm = m ? m : "C01";
        g_mode = mm == "C02" ? M_C02 : mm == "C03" ? M_C03 : mm == "C17" ? M_C17 : M_C01;
        // XCM's default tcp.user_timeout is 3 s; a loaded machine can stall a scripted pause
        // for longer than that, which is a property of the load, not of the library
        sh_override_user_timeout(600000);
        World::get();
    }

    Outcome run(const Plan &p, Case &c) override
    {
        sh_reset();
        Dec cfg(p.cfg);
        Run r(c);
        static const int MSG_TPS[] = {UX, UXF, TCP, TLS, UTLS_UX, UTLS_TLS, TLS_UTLS, TCP, TLS};
        static const int BS_TPS[] = {BTCP, BTLS};
        static const int ALL_TPS[] = {UX, UXF, TCP, TLS, UTLS_UX, UTLS_TLS, TLS_UTLS, BTCP, BTLS, TCP, TLS};
        uint32_t tsel = cfg.raw();
        const char *force = getenv("VF_TP");
        if (g_mode == M_C02) r.tp = BS_TPS[tsel % 2];
        else if (g_mode == M_C01) r.tp = MSG_TPS[tsel % 9];
        else r.tp = ALL_TPS[tsel % 11];
        if (force) r.tp = atoi(force);
        r.bs = is_bytestream(r.tp);
        bool small = cfg.ch(3) == 0 && is_tcp_based(r.tp);
        r.s[0].name = "A(client)";
        r.s[1].name = "B(server)";
        PairOpts po;
        po.tp = r.tp;
        po.small_bufs = small;
        // C03 "every phase": a third of the cases start sending while XCM still regards the
        // TCP handshake as pending (the shim answers "in progress" to the next status probes)
        // and, for TLS, before the handshake is complete
        bool early = g_mode == M_C03 && is_tcp_based(r.tp) && cfg.ch(3) == 0;
        if (early) {
            int nd = (int)cfg.range(2, 30);
            for (int i = 0; i < nd; i++) sh_push(po.client_tag, SH_CONN, SH_DELAY, 0);
            po.drive_to_ready = false;
            c.cls("sends-before-established");
        }
        std::string err = make_pair(po, r.s[0].ep, r.s[1].ep);
        VF_CHECK(err.empty(), "setup: %s pair: %s", tp_name(r.tp), err.c_str());
        // at most one blocking endpoint (its calls run in a worker thread while
        // the main thread pumps the non-blocking peer)
        int bsel = cfg.ch(8);
        int blocking_side = bsel == 0 ? 0 : bsel == 1 ? 1 : -1;
        if (getenv("VF_BLOCKING")) blocking_side = atoi(getenv("VF_BLOCKING"));
        if (early) blocking_side = -1;
        if (r.tp == BTLS && blocking_side >= 0 && excluded("btls-refused-send-not-retried-identically")) {
            // the exclusion's identical-retry loop needs a peer the main thread can drain
            count_exclusion("btls-blocking-endpoint-with-refused-send-exclusion");
            blocking_side = -1;
        }
        if (blocking_side >= 0) {
            int rc = x_set_blocking(r.s[blocking_side].ep, true);
            VF_CHECK(rc == 0, "xcm_set_blocking(true) on an established connection failed: %s", errname(errno));
            c.cls("blocking-endpoint");
        }
        c.log("transport %s%s%s", tp_name(r.tp), small ? " small-socket-buffers" : "",
              blocking_side < 0 ? "" : blocking_side == 0 ? " A-blocking" : " B-blocking");
        c.cls(std::string("tp:") + tp_name(r.tp));
        Outcome o = r.counters_both("after establishment");
        size_t stepno = 0;
        for (auto &st : p.steps) {
            if (!o.ok) break;
            stepno++;
            Dec d(st);
            uint32_t k = d.ch(100);
            int side = d.flag() ? 1 : 0;
            if (k < 34) {
                uint32_t len = pick_len(d, r.bs, g_mode == M_C03);
                uint32_t tag = mix32(d.raw(), (uint32_t)stepno);
                bool blk = r.s[side].ep.blocking;
                if (blk && d.ch(3) == 0) r.eintr_next = (int)d.range(1, 3);
                bool resend = d.flag();
                size_t nfail = r.failed_blocking_sends.size();
                o = r.do_send(side, tag, len);
                if (o.ok && blk && resend && r.failed_blocking_sends.size() > nfail) {
                    // the application re-sends the message whose send failed
                    c.cls("resend-after-failed-blocking-send");
                    o = r.do_send(side, tag, len);
                }
            } else if (k < 68) {
                size_t cap;
                if (r.bs) { static const int CB[] = {1, 2, 100, 4096, 16384, 16385, 70000}; cap = d.ch(2) ? (size_t)d.pick(CB) : (size_t)d.range(1, 70000); }
                else {
                    static const int CM[] = {1, 2, 3, 4, 5, 100, 4096, 65534};
                    uint32_t sel = d.ch(10);
                    cap = sel < 6 ? 65535 : sel < 7 ? 70000 : sel < 9 ? (size_t)d.pick(CM) : (size_t)d.range(1, 65535);
                }
                o = r.do_recv(side, cap);
            } else if (k < 76) {
                o = r.do_finish(side);
            } else if (k < 92) {
                if (!r.s[side].ep.closed) r.push_script(side, d);
            } else if (k < 96) {
                Side &sd = r.s[side];
                if (!sd.ep.closed && !sd.ep.blocking) {
                    static const int CONDS[] = {0, XCM_SO_RECEIVABLE, XCM_SO_SENDABLE, XCM_SO_RECEIVABLE | XCM_SO_SENDABLE};
                    int cond = d.pick(CONDS);
                    int rc = x_await(sd.ep, cond);
                    VF_CHECK(rc == 0, "xcm_await(%d) failed: %s", cond, errname(errno));
                    int fd = x_fd(sd.ep);
                    VF_CHECK(fd == sd.ep.fd, "C16: xcm_fd changed from %d to %d", sd.ep.fd, fd);
                    fd_readable(fd, 0);
                }
            } else if (k < 99 && stepno > p.steps.size() / 2) {
                Side &sd = r.s[side];
                uint32_t g = d.raw();
                if (g % 2 == 1 && r.graceful_close(side, o)) break; // nothing more is sent once a side has left in good order
                if (o.ok && !sd.ep.closed) {
                    c.log("%s close", sd.name);
                    c.cls("early-close");
                    x_close(sd.ep);
                }
            } else if (uses_tls(r.tp)) {
                o = bystander_tls_failure(c);
            }
            if (o.ok) o = r.counters_both("after step");
        }
        // ---- flush and drain
        if (o.ok) o = drain(r);
        // classification
        classify(r, c);
        for (int i = 0; i < 2; i++) x_close(r.s[i].ep);
        return o;
    }

    Outcome drain(Run &r)
    {
        sh_clear(r.s[0].ep.tag);
        sh_clear(r.s[1].ep.tag);
        for (int i = 0; i < 2; i++)
            if (!r.s[i].ep.closed && r.s[i].ep.blocking) {
                int rc = x_set_blocking(r.s[i].ep, false);
                VF_CHECK(rc == 0, "xcm_set_blocking(false) failed: %s", errname(errno));
            }
        // a connection that died of the scripted failure: the application gives it a few more calls
        // (anything it still held must not come out now), then closes it
        for (int i = 0; i < 2; i++) {
            Side &sd = r.s[i];
            if (!(sd.failed && sd.fault_injected) || sd.ep.closed) continue;
            for (int k = 0; k < 5; k++) {
                x_finish(sd.ep);
                Outcome o = r.do_recv(1 - i, 70000);
                if (!o.ok) return o;
                usleep(200);
            }
            r.c.log("%s closes the connection that failed", sd.name);
            x_close(sd.ep);
        }
        bool both_alive = !r.s[0].ep.closed && !r.s[1].ep.closed;
        int idle = 0;
        double idle_since = -1;
        uint64_t moved_prev = 0;
        for (int iter = 0; iter < 200000; iter++) {
            bool progress = false;
            // bytes moved at the kernel boundary count as progress too (a large
            // frame over small socket buffers takes many rounds)
            uint64_t moved = 0;
            for (int i = 0; i < 2; i++) moved += sh_cnt(r.s[i].ep.tag)->send_bytes + sh_cnt(r.s[i].ep.tag)->recv_bytes;
            if (moved != moved_prev) progress = true;
            moved_prev = moved;
            bool fin_ok[2] = {true, true};
            for (int i = 0; i < 2; i++) {
                Side &sd = r.s[i];
                if (sd.ep.closed) continue;
                int rc = x_finish(sd.ep);
                if (rc < 0) {
                    fin_ok[i] = false;
                    if (errno != EAGAIN) {
                        VF_CHECK((r.s[1 - i].ep.closed || sd.fault_injected) && r.errno_ok_after_peer_gone(errno),
                                 "C01: %s: xcm_finish failed with %s during flush", sd.name, errname(errno));
                        sd.failed = true;
                        fin_ok[i] = true;
                    }
                }
            }
            for (int i = 0; i < 2; i++) {
                Side &sd = r.s[i];
                if (sd.ep.closed || sd.failed) continue;
                for (int n = 0; n < 64; n++) {
                    bool got;
                    Outcome o = r.do_recv(i, 70000, &got);
                    if (!o.ok) return o;
                    if (!got) break;
                    progress = true;
                }
            }
            if (r.check_counters()) { Outcome o = r.counters_both("during drain"); if (!o.ok) return o; }
            bool done;
            if (both_alive) done = fin_ok[0] && fin_ok[1] && r.all_delivered(0) && r.all_delivered(1);
            else {
                done = true;
                for (int i = 0; i < 2; i++)
                    if (!r.s[i].ep.closed && !r.s[i].failed) done = false; // drain until 0/error
            }
            if (done) break;
            if (progress) { idle = 0; idle_since = -1; continue; }
            struct timespec ts;
            clock_gettime(CLOCK_MONOTONIC, &ts);
            double now = ts.tv_sec + ts.tv_nsec / 1e9;
            if (idle_since < 0) idle_since = now;
            ++idle;
            // liveness bound: 3 s without a single byte moving at the kernel
            // boundary and without a delivery, while both ends keep trying
            if (now - idle_since > 3.0) {
                if (both_alive) {
                    for (int i = 0; i < 2; i++)
                        VF_CHECK(r.all_delivered(i),
                                 "C01: %zu message(s)/%zu byte(s) accepted from %s were never delivered although both ends kept finishing and receiving (3 s without progress)",
                                 r.d[i].msgs.size() - r.d[i].delivered, r.d[i].bytes.size() - r.d[i].off, r.s[i].name);
                    return failf("C04: xcm_finish never succeeded on an idle connection (A %d, B %d)", fin_ok[0], fin_ok[1]);
                }
                return failf("C06: receive on %s never reported the peer's close", r.s[0].ep.closed ? "B" : "A");
            }
            struct pollfd pf[2];
            int n = 0;
            for (int i = 0; i < 2; i++)
                if (!r.s[i].ep.closed) {
                    x_await(r.s[i].ep, XCM_SO_RECEIVABLE);
                    pf[n++] = {r.s[i].ep.fd, POLLIN, 0};
                }
            poll(pf, n, idle < 10 ? 1 : 15);
        }
        if (r.graceful_closer >= 0) {
            int gi = r.graceful_closer;
            VF_CHECK(r.all_delivered(gi),
                     "C03: %s had received everything, let its socket finish (xcm_finish returned 0) and closed, yet %zu message(s)/%zu byte(s) it had successfully sent never arrived at %s",
                     r.s[gi].name, r.bs ? (size_t)0 : r.d[gi].msgs.size() - r.d[gi].delivered, r.bs ? r.d[gi].bytes.size() - r.d[gi].off : (size_t)0, r.s[1 - gi].name);
        }
        if (both_alive && r.check_counters()) {
            // quiescent: sender to_lower == receiver from_lower == ledger
            for (int i = 0; i < 2; i++) {
                Side &snd = r.s[i], &rcv = r.s[1 - i];
                VF_CHECK(snd.cnt[TO_LOWER_B] == (int64_t)r.d[i].acc_bytes && rcv.cnt[FROM_LOWER_B] == (int64_t)r.d[i].acc_bytes,
                         "C17: at quiescence %s to_lower_bytes=%ld, %s from_lower_bytes=%ld, ledger %lu",
                         snd.name, (long)snd.cnt[TO_LOWER_B], rcv.name, (long)rcv.cnt[FROM_LOWER_B], (unsigned long)r.d[i].acc_bytes);
                if (!r.bs)
                    VF_CHECK(snd.cnt[TO_LOWER_M] == (int64_t)r.d[i].acc_msgs && rcv.cnt[FROM_LOWER_M] == (int64_t)r.d[i].acc_msgs,
                             "C17: at quiescence %s to_lower_msgs=%ld, %s from_lower_msgs=%ld, ledger %lu",
                             snd.name, (long)snd.cnt[TO_LOWER_M], rcv.name, (long)rcv.cnt[FROM_LOWER_M], (unsigned long)r.d[i].acc_msgs);
            }
        }
        return Outcome::pass();
    }

    void classify(Run &r, Case &c)
    {
        uint64_t split = 0, inj = 0, real_eagain = 0, lt4 = 0;
        for (int i = 0; i < 2; i++) {
            const sh_counters *k = sh_cnt(r.s[i].ep.tag);
            split += k->send_short + k->recv_short;
            inj += k->send_eagain_inj + k->recv_eagain_inj;
            real_eagain += k->send_eagain_real;
            lt4 += k->recv_lt4;
        }
        uint64_t delivered = r.bs ? r.d[0].off + r.d[1].off : r.d[0].delivered + r.d[1].delivered;
        if (split) c.cls("io-split-across-calls");
        if (lt4 > 0) c.cls("header-split-across-reads");
        if (inj) c.cls("eagain-injected");
        if (real_eagain) c.cls("kernel-backpressure");
        if (r.trunc_then_recv) c.cls("truncation-then-next-message");
        if (r.refused_sends) c.cls("send-refused");
        if (r.refused_pending) c.cls("send-refused-while-frame-pending");
        count("messages_or_bytes_delivered", delivered);
        count("sends_refused", r.refused_sends);
        bool nt = false;
        switch (g_mode) {
        case M_C01:
            nt = delivered > 0 && (is_tcp_based(r.tp) ? (split || inj || r.trunc_then_recv || r.refused_pending)
                                                      : (real_eagain || inj || r.trunc_then_recv));
            break;
        case M_C02: nt = delivered > 0 && (r.partial_accepts || r.refused_sends || split); break;
        case M_C03: nt = r.refused_pending > 0 || r.eintr_hits > 0 || (r.refused_sends > 0 && (split || inj)); break;
        case M_C17: nt = delivered > 0 && (c.classes.count("truncating-receive") || r.refused_sends || split); break;
        }
        c.nt(nt);
    }
};

} // namespace

namespace vf {
Harness *make_harness() { return new Datapath(); }
}
