// C18 - each TLS connection uses the credentials designated at that moment.
//
// Histories over a certificate directory tree, the XCM_TLS_CERT variable and
// per-socket credential attributes, interleaved with connection set-up and
// tear-down.  The model records, at each creating call, which material is
// designated (attribute first - by file or by value -, else the directory
// named by the environment as it then stands).  Observations are made by the
// other end of each connection: the certificate it sees (tls.peer.cert.subject.cn)
// and whether the subject trusts an observer whose issuer discriminates
// between the trust stores.
#include "vf.h"
#include "xpair.h"

#include <algorithm>
#include <fcntl.h>
#include <openssl/ssl.h>
#include <openssl/crypto.h>
#include <sys/stat.h>

extern "C" size_t __sanitizer_get_current_allocated_bytes(void) __attribute__((weak));

// ---- count live TLS contexts exactly: OpenSSL calls these when an SSL_CTX is created / destroyed
static long g_ctx_live;
static void ctx_new_cb(void *, void *, CRYPTO_EX_DATA *, int, long, void *) { __sync_fetch_and_add(&g_ctx_live, 1); }
static void ctx_free_cb(void *, void *, CRYPTO_EX_DATA *, int, long, void *) { __sync_fetch_and_sub(&g_ctx_live, 1); }

using namespace vf;
using namespace xp;

namespace {

const int NSETS = 4;  // credential sets; set i: leaf "set-i" under its own root R_i, trusting root T_(i%2)
const size_t PAD = 1400;

struct Sets {
    pki::CertP root[NSETS], leaf[NSETS];
    pki::CertP obs_root[2], obs_leaf[2]; // two observer identities: issuer 0 / issuer 1
    std::string all_roots;
    std::string cert[NSETS], key[NSETS], tc[NSETS];
    void init()
    {
        for (int j = 0; j < 2; j++) {
            pki::CertSpec r; r.cn = "c18-observer-root-" + std::to_string(j); r.is_ca = true;
            obs_root[j] = pki::make_cert(r, nullptr);
            pki::CertSpec l; l.cn = "c18-observer-" + std::to_string(j);
            obs_leaf[j] = pki::make_cert(l, obs_root[j].get());
        }
        for (int i = 0; i < NSETS; i++) {
            pki::CertSpec r; r.cn = "c18-root-" + std::to_string(i); r.is_ca = true;
            root[i] = pki::make_cert(r, nullptr);
            pki::CertSpec l; l.cn = "set-" + std::to_string(i);
            leaf[i] = pki::make_cert(l, root[i].get());
            all_roots += root[i]->cert_pem;
            auto pad = [](std::string s) { if (s.size() < PAD) s.append(PAD - s.size(), '\n'); return s; };
            cert[i] = pad(leaf[i]->cert_pem);
            key[i] = pad(leaf[i]->key_pem);
            tc[i] = pad(obs_root[i % 2]->cert_pem); // set i trusts observer issuer i%2 only
        }
    }
};
Sets g_s;

struct Conn {
    Ep subj, obs;
    int cert_set = -1; // which leaf the subject was told to present
    int tc_set = -1;
    bool alive = false;
};

std::string subject_cn(Ep &observer)
{
    char buf[256] = "";
    int rc = call(observer, [&] { return xcm_attr_get_str(observer.s, "tls.peer.cert.subject.cn", buf, sizeof(buf)); });
    return rc >= 0 ? buf : "";
}

class C18 : public Harness {
public:
    const char *property() override { return "C18"; }
    size_t cfg_len() override { return 6; }
    size_t step_len() override { return 6; }
    size_t max_steps() override { return 40; }
    std::string base;
    Ep observer[2]; // kept-alive observer servers (issuer 0 / 1), trusting every set's root
    std::string obs_addr[2];
    int ncase = 0;

    void setup() override
    {
        World::get();
        CRYPTO_get_ex_new_index(CRYPTO_EX_INDEX_SSL_CTX, 0, nullptr, ctx_new_cb, nullptr, ctx_free_cb);
        g_s.init();
        base = tmpdir() + "/c18";
        mkdir(base.c_str(), 0755);
        for (int j = 0; j < 2; j++) {
            observer[j].tag = 40 + j;
            struct xcm_attr_map *m = xcm_attr_map_create();
            xcm_attr_map_add_bool(m, "xcm.blocking", false);
            xcm_attr_map_add_bin(m, "tls.cert", g_s.obs_leaf[j]->cert_pem.data(), g_s.obs_leaf[j]->cert_pem.size());
            xcm_attr_map_add_bin(m, "tls.key", g_s.obs_leaf[j]->key_pem.data(), g_s.obs_leaf[j]->key_pem.size());
            xcm_attr_map_add_bin(m, "tls.tc", g_s.all_roots.data(), g_s.all_roots.size());
            observer[j].s = call(observer[j], [&] { return xcm_server_a("tls:127.0.0.1:0", m); });
            xcm_attr_map_destroy(m);
            if (observer[j].s) {
                observer[j].closed = false;
                const char *la = call(observer[j], [&] { return xcm_local_addr(observer[j].s); });
                obs_addr[j] = la ? la : "";
            }
        }
    }

    // ---- the file system model: what each (dir, file) currently designates
    struct Dir { std::string path; int cert = -1, key = -1, tc = -1; bool is_link = false; int last_how = 0; };
    std::vector<Dir> dirs;

    void write_atomic(const std::string &path, const std::string &content)
    {
        std::string tmp = path + ".new";
        pki::write_file(tmp, content);
        rename(tmp.c_str(), path.c_str());
    }
    void write_in_place(const std::string &path, const std::string &content, bool keep_mtime)
    {
        struct stat sb;
        bool had = stat(path.c_str(), &sb) == 0;
        int fd = open(path.c_str(), O_WRONLY | O_CREAT, 0644);
        if (fd < 0) return;
        ssize_t n = pwrite(fd, content.data(), content.size(), 0);
        (void)n;
        if (ftruncate(fd, content.size()) < 0) {}
        close(fd);
        if (keep_mtime && had) {
            struct timespec ts[2] = {sb.st_atim, sb.st_mtim};
            utimensat(AT_FDCWD, path.c_str(), ts, 0);
        } else if (had) {
            // file systems stamp with a coarse clock: two writes a millisecond apart may get the same
            // mtime, which is the recorded identical-metadata finding, not what this step is about
            struct stat nb;
            if (stat(path.c_str(), &nb) == 0 && nb.st_mtim.tv_sec == sb.st_mtim.tv_sec && nb.st_mtim.tv_nsec == sb.st_mtim.tv_nsec) {
                struct timespec ts[2] = {sb.st_atim, sb.st_mtim};
                ts[1].tv_nsec += 10000000;
                if (ts[1].tv_nsec >= 1000000000) { ts[1].tv_nsec -= 1000000000; ts[1].tv_sec++; }
                utimensat(AT_FDCWD, path.c_str(), ts, 0);
            }
        }
    }
    void put_set(Dir &d, int set, int how)
    {
        // how: 0 fresh inodes (rename over), 1 rewrite in place, 2 rewrite in place and restore mtime
        auto w = [&](const char *f, const std::string &content) {
            std::string p = d.path + "/" + f;
            if (how == 0) write_atomic(p, content); else write_in_place(p, content, how == 2);
        };
        w("cert.pem", g_s.cert[set]);
        w("key.pem", g_s.key[set]);
        w("tc.pem", g_s.tc[set]);
        d.cert = d.key = d.tc = set;
        d.last_how = how;
    }

    Outcome run(const Plan &p, Case &c) override
    {
        sh_reset();
        VF_CHECK(observer[0].s && observer[1].s, "setup: observers");
        ncase++;
        std::string root = base + "/case" + std::to_string(ncase % 4);
        std::string cmd = "rm -rf " + root;
        if (system(cmd.c_str()) != 0) {}
        mkdir(root.c_str(), 0755);
        dirs.clear();
        for (int i = 0; i < 3; i++) { Dir d; d.path = root + "/d" + std::to_string(i); mkdir(d.path.c_str(), 0755); dirs.push_back(d); }
        // d2 is reached through a symbolic link "cur" that is flipped between d0 and d1
        std::string link = root + "/cur";
        int link_to = 0;
        if (symlink("d0", link.c_str()) < 0) {}
        // a directory whose files are symbolic links reaching through the flipping link (the way
        // orchestrators publish secrets): the links never change, what they resolve to does
        std::string kdir = root + "/k8s";
        mkdir(kdir.c_str(), 0755);
        for (const char *f : {"cert.pem", "key.pem", "tc.pem"}) { std::string t = std::string("../cur/") + f; if (symlink(t.c_str(), (kdir + "/" + f).c_str()) < 0) {} }
        Dec cfg(p.cfg);
        int env_dir = 0; // 0..2 = d0..d2, 3 = the link
        put_set(dirs[0], (int)cfg.ch(NSETS), 0);
        put_set(dirs[1], (int)cfg.ch(NSETS), 0);
        put_set(dirs[2], (int)cfg.ch(NSETS), 0);
        auto env_path = [&]() { return env_dir == 4 ? kdir : env_dir == 3 ? link : dirs[env_dir].path; };
        auto env_model = [&]() -> Dir & { return env_dir >= 3 ? dirs[link_to] : dirs[env_dir]; };
        setenv("XCM_TLS_CERT", env_path().c_str(), 1);
        long ctx0 = g_ctx_live;
        size_t heap0 = __sanitizer_get_current_allocated_bytes ? __sanitizer_get_current_allocated_bytes() : 0;
        (void)heap0;
        std::vector<Conn> conns;
        struct Guard { std::vector<Conn> &v; ~Guard() { for (auto &x : v) { x_close(x.subj); x_close(x.obs); } } } guard{conns};
        Outcome o = Outcome::pass();
        bool nt = false;
        int updates_since_create = 0;
        // every history starts with one connection made entirely from the environment directory as it
        // stands (so that anything XCM may remember from a first use is part of the history itself)
        o = create(c, conns, env_model(), 0, 0, 0, (uint32_t)((env_model().tc % 2) << 8));
        size_t stepno = 0;
        for (auto &st : p.steps) {
            if (!o.ok) break;
            stepno++;
            Dec d(st);
            uint32_t k = d.ch(100);
            uint32_t a = d.raw(), b = d.raw(), x = d.raw(), y = d.raw();
            if (k < 14) { // new material with fresh inodes
                int di = a % 3, set = b % NSETS;
                put_set(dirs[di], set, 0);
                c.log("write set-%d into d%d (rename over)", set, di);
                updates_since_create++;
            } else if (k < 26) { // rewrite in place (same inode, same size)
                int di = a % 3, set = b % NSETS;
                bool keep = x % 4 == 0;
                if (keep && excluded("credential-file-rewritten-with-identical-metadata")) { keep = false; count_exclusion("credential-file-rewritten-with-identical-metadata"); }
                put_set(dirs[di], set, keep ? 2 : 1);
                c.log("rewrite d%d in place with set-%d (same size%s)", di, set, keep ? ", mtime restored" : "");
                c.cls(keep ? "rewrite-in-place-same-size-same-mtime" : "rewrite-in-place-same-size");
                updates_since_create++;
            } else if (k < 32) { // flip the link
                link_to = 1 - link_to;
                std::string tmp = link + ".new";
                if (symlink(link_to ? "d1" : "d0", tmp.c_str()) == 0) rename(tmp.c_str(), link.c_str());
                c.log("symlink cur -> d%d", link_to);
                c.cls("symlink-flip");
                updates_since_create++;
            } else if (k < 40) { // switch directory through the environment
                env_dir = a % 5;
                setenv("XCM_TLS_CERT", env_path().c_str(), 1);
                c.log("XCM_TLS_CERT=%s", env_dir == 4 ? "k8s (file links through cur)" : env_dir == 3 ? "cur (link)" : ("d" + std::to_string(env_dir)).c_str());
                if (env_dir == 4) c.cls("file-symlinks-through-flipping-directory-link");
                updates_since_create++;
            } else if (k < 44) {
                o = split_pair(c, conns, a);
                nt = true;
            } else if (k < 72) { // create a connection whose client side is the subject
                bool live_older = false;
                for (auto &cn : conns) live_older |= cn.alive;
                if (live_older && updates_since_create > 0) { nt = true; c.cls("creation-after-update-with-older-socket-alive"); }
                o = create(c, conns, env_model(), a, b, x, y);
                updates_since_create = 0;
            } else if (k < 86) { // probe an established connection: still works, identity unchanged
                if (conns.empty()) continue;
                Conn &cn = conns[a % conns.size()];
                if (!cn.alive) continue;
                uint8_t m[16] = {1, 2, 3}, r[32];
                int rc = x_send(cn.subj, m, sizeof(m));
                VF_CHECK(rc == 0, "C18: an established connection stopped working after credential updates (send: %s)", errname(errno));
                int got = -1;
                for (int i = 0; i < 2000 && got < 0; i++) { x_finish(cn.subj); got = x_receive(cn.obs, r, sizeof(r)); if (got < 0 && errno != EAGAIN) break; if (got < 0) usleep(100); }
                VF_CHECK(got == 16, "C18: an established connection stopped delivering after credential updates (%d %s)", got, got < 0 ? errname(errno) : "");
                std::string cn_now = subject_cn(cn.obs);
                VF_CHECK(cn_now == "set-" + std::to_string(cn.cert_set), "C18: the peer identity of an established connection changed from set-%d to %s", cn.cert_set, cn_now.c_str());
            } else if (k < 96) {
                if (conns.empty()) continue;
                Conn &cn = conns[a % conns.size()];
                if (cn.alive) { x_close(cn.subj); x_close(cn.obs); cn.alive = false; c.log("close a connection (set-%d)", cn.cert_set); }
            } else { // broken material in the environment directory
                o = broken(c, env_model(), env_model().path, a); // the real directory behind any links
            }
        }
        // ---- everything closed: cached contexts are released
        for (auto &cn : conns) { x_close(cn.subj); x_close(cn.obs); cn.alive = false; }
        if (o.ok) VF_CHECK(g_ctx_live == ctx0, "C18: %ld TLS context(s) are still alive after the last socket using them was closed", g_ctx_live - ctx0);
        c.nt(nt);
        return o;
    }

    void drain_observers()
    {
        for (int j = 0; j < 2; j++)
            for (int i = 0; i < 16; i++) {
                sh_enter(99, 1);
                struct xcm_socket *x = xcm_accept(observer[j].s);
                if (x) xcm_close(x);
                sh_leave();
                if (!x) break;
            }
    }

    // Two by-value configurations whose cert|key|tc texts concatenate to the same bytes but split
    // differently: X = (cert, key+CA1, CA0) designates trust {CA0}; Y = (cert, key, CA1+CA0)
    // designates trust {CA1, CA0}.  X stays alive while Y is created.
    Outcome split_pair(Case &c, std::vector<Conn> &conns, uint32_t a)
    {
        c.cls("by-value-split-pair");
        int vs = a % NSETS;
        std::string r0 = g_s.obs_root[0]->cert_pem, r1 = g_s.obs_root[1]->cert_pem;
        for (int which = 0; which < 2; which++) {
            std::string key = which == 0 ? g_s.key[vs] + r1 : g_s.key[vs];
            std::string tc = which == 0 ? r0 : r1 + r0;
            int oj = which == 0 ? 0 : 1; // X talks to observer 0, Y to observer 1 (which only Y trusts)
            drain_observers();
            struct xcm_attr_map *m = xcm_attr_map_create();
            xcm_attr_map_add_bool(m, "xcm.blocking", false);
            xcm_attr_map_add_bin(m, "tls.cert", g_s.cert[vs].data(), g_s.cert[vs].size());
            xcm_attr_map_add_bin(m, "tls.key", key.data(), key.size());
            xcm_attr_map_add_bin(m, "tls.tc", tc.data(), tc.size());
            conns.push_back(Conn());
            Conn &cn = conns.back();
            cn.subj.tag = 2; cn.obs.tag = 3;
            cn.subj.s = call(cn.subj, [&] { return xcm_connect_a(obs_addr[oj].c_str(), m); });
            int e = errno;
            xcm_attr_map_destroy(m);
            VF_CHECK(cn.subj.s != nullptr, "C18: by-value configuration %c refused: %s", which ? 'Y' : 'X', errname(e));
            cn.subj.closed = false;
            bool s_ready = false, o_ready = false;
            int s_err = 0;
            for (int i = 0; i < 4000; i++) {
                if (!cn.obs.s) { sh_enter(cn.obs.tag, 1); cn.obs.s = xcm_accept(observer[oj].s); sh_leave(); if (cn.obs.s) cn.obs.closed = false; }
                if (!s_ready && !s_err) { int rc = x_finish(cn.subj); if (rc == 0) s_ready = true; else if (errno != EAGAIN) s_err = errno; }
                if (cn.obs.s && !o_ready) { int rc = x_finish(cn.obs); if (rc == 0) o_ready = true; else if (errno != EAGAIN) break; }
                if ((s_ready && o_ready) || s_err) break;
                usleep(150);
            }
            c.log("by-value configuration %c (trust %s) to observer with issuer %d -> %s", which ? 'Y' : 'X', which ? "{CA1,CA0}" : "{CA0}", oj, s_ready ? "established" : errname(s_err));
            if (!(s_ready && o_ready)) {
                x_close(cn.subj); x_close(cn.obs);
                return failf("C18: by-value configuration %c designates a trust store containing the observer's issuer, yet the connection failed (%s)%s", which ? 'Y' : 'X', s_err ? errname(s_err) : "timeout",
                             which ? " - it shares a cached TLS context with configuration X, whose texts concatenate to the same bytes" : "");
            }
            cn.cert_set = vs; cn.tc_set = -1; cn.alive = true;
        }
        return Outcome::pass();
    }

    // designate material for a new client-side subject and check what it uses
    Outcome create(Case &c, std::vector<Conn> &conns, Dir &envd, uint32_t a, uint32_t b, uint32_t x, uint32_t y)
    {
        // per item: 0 from the environment directory, 1 attribute by file, 2 attribute by value
        int how_cert = a % 3, how_tc = (a / 3) % 3;
        int attr_dir = b % 3;          // directory the *_file attributes point into
        int val_set = x % NSETS;       // set used for by-value attributes
        Dir &ad = dirs[attr_dir];
        int want_cert, want_tc;
        struct xcm_attr_map *m = xcm_attr_map_create();
        xcm_attr_map_add_bool(m, "xcm.blocking", false);
        std::string desc;
        // certificate and key always travel together
        if (how_cert == 0) { want_cert = envd.cert; desc += "cert/key from the environment directory; "; }
        else if (how_cert == 1) {
            xcm_attr_map_add_str(m, "tls.cert_file", (ad.path + "/cert.pem").c_str());
            xcm_attr_map_add_str(m, "tls.key_file", (ad.path + "/key.pem").c_str());
            want_cert = ad.cert;
            desc += "tls.cert_file/key_file in d" + std::to_string(attr_dir) + "; ";
        } else {
            xcm_attr_map_add_bin(m, "tls.cert", g_s.cert[val_set].data(), g_s.cert[val_set].size());
            // split variant: the key value carries a CA certificate after the key (PEM readers skip foreign blocks)
            std::string kv = g_s.key[val_set];
            xcm_attr_map_add_bin(m, "tls.key", kv.data(), kv.size());
            want_cert = val_set;
            desc += "tls.cert/key by value (set-" + std::to_string(val_set) + "); ";
        }
        if (how_tc == 0) { want_tc = envd.tc; desc += "tc from the environment directory"; }
        else if (how_tc == 1) { xcm_attr_map_add_str(m, "tls.tc_file", (ad.path + "/tc.pem").c_str()); want_tc = ad.tc; desc += "tls.tc_file in d" + std::to_string(attr_dir); }
        else { int ts = y % NSETS; xcm_attr_map_add_bin(m, "tls.tc", g_s.tc[ts].data(), g_s.tc[ts].size()); want_tc = ts; desc += "tls.tc by value (set-" + std::to_string(ts) + ")"; }
        static const char *HOWN[] = {"rename-over (fresh inodes)", "in-place rewrite", "in-place rewrite preserving size and mtime"};
        desc += "; files last changed by:";
        if (how_cert == 0 || how_tc == 0) desc += std::string(" env dir ") + HOWN[envd.last_how];
        if (how_cert == 1 || how_tc == 1) desc += std::string(" attribute dir ") + HOWN[ad.last_how];
        // which observer do we talk to?  One whose issuer the designated trust store contains, or not
        int oj = (y >> 8) % 2;
        bool trusted = want_tc % 2 == oj;
        drain_observers();
        // registered at once, so that every exit path closes it (a leaked socket would keep its
        // cached TLS context alive into the next case)
        conns.push_back(Conn());
        Conn &cn = conns.back();
        cn.subj.tag = 2;
        cn.obs.tag = 3;
        std::string addr = obs_addr[oj];
        errno = 0;
        cn.subj.s = call(cn.subj, [&] { return xcm_connect_a(addr.c_str(), m); });
        int e = errno;
        xcm_attr_map_destroy(m);
        c.log("connect: %s -> designated leaf set-%d, trust of set-%d; observer issuer %d (%s)", desc.c_str(), want_cert, want_tc, oj, trusted ? "trusted" : "not trusted");
        VF_CHECK(cn.subj.s != nullptr, "C18: xcm_connect_a with well-formed designated material failed: %s (%s)", errname(e), desc.c_str());
        cn.subj.closed = false;
        // drive; the observer accepts
        bool s_ready = false, o_ready = false;
        int s_err = 0;
        for (int i = 0; i < 4000; i++) {
            if (!cn.obs.s) {
                sh_enter(cn.obs.tag, 1);
                cn.obs.s = xcm_accept(observer[oj].s);
                sh_leave();
                if (cn.obs.s) cn.obs.closed = false;
            }
            if (!s_ready && !s_err) { int rc = x_finish(cn.subj); if (rc == 0) s_ready = true; else if (errno != EAGAIN) s_err = errno; }
            if (cn.obs.s && !o_ready) { int rc = x_finish(cn.obs); if (rc == 0) o_ready = true; else if (errno != EAGAIN) break; }
            if ((s_ready && o_ready) || s_err) break;
            usleep(150);
        }
        if (!trusted) {
            VF_CHECK(!s_ready, "C18: the designated trust store (set-%d: observer issuer %d only) does not contain the observer's issuer %d, yet the connection was established - trust material of another configuration is in use [%s]", want_tc, want_tc % 2, oj, desc.c_str());
            x_close(cn.subj);
            x_close(cn.obs);
            c.cls("trust-probe:rejected");
            return Outcome::pass();
        }
        VF_CHECK(s_ready && o_ready, "C18: the designated trust store (set-%d) contains the observer's issuer, yet the connection failed (%s) - trust material of another configuration is in use? [%s]", want_tc, s_err ? errname(s_err) : "timeout", desc.c_str());
        std::string seen = subject_cn(cn.obs);
        VF_CHECK(seen == "set-" + std::to_string(want_cert), "C18: the connection presents the certificate of '%s', the material designated at the time of the call is set-%d [%s]", seen.c_str(), want_cert, desc.c_str());
        cn.cert_set = want_cert;
        cn.tc_set = want_tc;
        cn.alive = true;
        c.cls("trust-probe:accepted");
        return Outcome::pass();
    }

    // unreadable / malformed / mismatching material fails with EPROTO
    Outcome broken(Case &c, Dir &envd, const std::string &envpath, uint32_t a)
    {
        int kind = a % 7;
        static const char *KN[] = {"certificate file missing", "certificate file is garbage", "key does not match the certificate", "certificate path is a directory", "trust file missing",
                                   "trust bundle whose last entry is cut short", "trust bundle whose last entry is corrupt"};
        std::string cert = envpath + "/cert.pem", key = envpath + "/key.pem", tc = envpath + "/tc.pem";
        std::string saved_cert = pki::read_file(cert), saved_key = pki::read_file(key), saved_tc = pki::read_file(tc);
        switch (kind) {
        case 0: unlink(cert.c_str()); break;
        case 1: write_atomic(cert, "-----BEGIN CERTIFICATE-----\nthis is not base64 at all\n-----END CERTIFICATE-----\n"); break;
        case 2: write_atomic(key, g_s.key[(envd.cert + 1) % NSETS]); break;
        case 3: unlink(cert.c_str()); mkdir(cert.c_str(), 0755); break;
        case 4: unlink(tc.c_str()); break;
        case 5: {
            // a valid CA followed by one caught in mid-write: no END line
            std::string second = g_s.root[(envd.tc + 1) % NSETS]->cert_pem;
            write_atomic(tc, saved_tc.substr(0, saved_tc.find_last_not_of('\n') + 1) + "\n" + second.substr(0, second.size() / 2));
            break;
        }
        default: {
            std::string second = g_s.root[(envd.tc + 2) % NSETS]->cert_pem;
            size_t mid = second.size() / 2;
            second[mid] = '!'; second[mid + 1] = '*';
            write_atomic(tc, saved_tc.substr(0, saved_tc.find_last_not_of('\n') + 1) + "\n" + second);
            break;
        }
        }
        Ep s;
        s.tag = 2;
        struct xcm_attr_map *m = xcm_attr_map_create();
        xcm_attr_map_add_bool(m, "xcm.blocking", false);
        errno = 0;
        bool server = (a >> 4) % 2;
        s.s = call(s, [&] { return server ? xcm_server_a("tls:127.0.0.1:0", m) : xcm_connect_a(obs_addr[0].c_str(), m); });
        int e = errno;
        xcm_attr_map_destroy(m);
        c.log("broken material (%s) -> %s: %s", KN[kind], server ? "xcm_server_a" : "xcm_connect_a", s.s ? "socket" : errname(e));
        c.cls(std::string("broken:") + KN[kind]);
        bool made = s.s != nullptr;
        if (s.s) { s.closed = false; x_close(s); }
        // restore
        if (kind == 3) rmdir(cert.c_str());
        write_atomic(cert, saved_cert);
        write_atomic(key, saved_key);
        write_atomic(tc, saved_tc);
        drain_observers();
        VF_CHECK(!made, "C18: %s succeeded although %s", server ? "xcm_server_a" : "xcm_connect_a", KN[kind]);
        VF_CHECK(e == EPROTO, "C18: %s with broken material (%s) failed with %s (want EPROTO)", server ? "xcm_server_a" : "xcm_connect_a", KN[kind], errname(e));
        return Outcome::pass();
    }
};

} // namespace

namespace vf {
Harness *make_harness() { return new C18(); }
}
