// C18 - each TLS connection uses the credentials designated at that moment.
//
// Histories over a certificate directory tree, the XCM_TLS_CERT variable and
// per-socket credential attributes, interleaved with connection set-up and
// tear-down.  The model records, at each creating call, which material is
// designated (attribute first - by file or by value -, else the directory
// named by the environment as it then stands).  Observations are made by the
// other end of each connection: the certificate it sees (tls.peer.cert.subject.cn)
// and whether the subject trusts an observer whose issuer discriminates
// between the trust stores.
//
// Beyond the client-side subject: server-side subjects (a kept server socket made at one
// point of the history, connections accepted from it at later points, with or without
// xcm_accept_a overrides), a second network namespace with the <item>_<ns>.pem naming
// (entered and left with setns(2) by the calling thread), and CRL material
// (tls.check_crl with crl.pem / tls.crl_file / tls.crl) that does or does not revoke the observer.
#include "vf.h"
#include "xpair.h"

#include <algorithm>
#include <cstring>
#include <functional>
#include <thread>
#include <dirent.h>
#include <fcntl.h>
#include <sched.h>
#include <signal.h>
#include <sys/file.h>
#include <openssl/ssl.h>
#include <openssl/crypto.h>
#include <sys/stat.h>

extern "C" size_t __sanitizer_get_current_allocated_bytes(void) __attribute__((weak));

// ---- count live TLS contexts exactly: OpenSSL calls these when an SSL_CTX is created / destroyed
static long g_ctx_live;
static void ctx_new_cb(void *, void *, CRYPTO_EX_DATA *, int, long, void *) { __sync_fetch_and_add(&g_ctx_live, 1); }
static void ctx_free_cb(void *, void *, CRYPTO_EX_DATA *, int, long, void *) { __sync_fetch_and_sub(&g_ctx_live, 1); }

using namespace vf;
using namespace xp;

namespace {

const int NSETS = 4;  // credential sets; set i: leaf "set-i" under its own root R_i, trusting root T_(i%2)
const size_t PAD = 1400;

struct Sets {
    pki::CertP root[NSETS], leaf[NSETS];
    pki::CertP obs_root[2], obs_leaf[2]; // two observer identities: issuer 0 / issuer 1
    std::string all_roots;
    std::string cert[NSETS], key[NSETS], tc[NSETS];
    pki::CertP rsa_leaf;  // same issuer as set 0, RSA key: material of another key algorithm
    std::string crl[2];   // CRLs of both observer issuers: [0] revokes nobody, [1] revokes both observer leaves
    void init()
    {
        for (int j = 0; j < 2; j++) {
            pki::CertSpec r; r.cn = "c18-observer-root-" + std::to_string(j); r.is_ca = true;
            obs_root[j] = pki::make_cert(r, nullptr);
            pki::CertSpec l; l.cn = "c18-observer-" + std::to_string(j);
            obs_leaf[j] = pki::make_cert(l, obs_root[j].get());
        }
        for (int i = 0; i < NSETS; i++) {
            pki::CertSpec r; r.cn = "c18-root-" + std::to_string(i); r.is_ca = true;
            root[i] = pki::make_cert(r, nullptr);
            pki::CertSpec l; l.cn = "set-" + std::to_string(i);
            leaf[i] = pki::make_cert(l, root[i].get());
            all_roots += root[i]->cert_pem;
            auto pad = [](std::string s) { if (s.size() < PAD) s.append(PAD - s.size(), '\n'); return s; };
            cert[i] = pad(leaf[i]->cert_pem);
            key[i] = pad(leaf[i]->key_pem);
            tc[i] = pad(obs_root[i % 2]->cert_pem); // set i trusts observer issuer i%2 only
        }
        pki::CertSpec rl; rl.cn = "set-rsa"; rl.rsa = true;
        rsa_leaf = pki::make_cert(rl, root[0].get());
        for (int v = 0; v < 2; v++) {
            for (int j = 0; j < 2; j++) {
                std::vector<long> rev;
                if (v) rev.push_back(obs_leaf[j]->serial);
                crl[v] += pki::make_crl(*obs_root[j], rev);
            }
            if (crl[v].size() < PAD) crl[v].append(PAD - crl[v].size(), '\n');
        }
    }
};
Sets g_s;

// where one credential item of a socket comes from
struct Src {
    int how = 0;     // 0 default lookup, 1 *_file attribute, 2 by value
    int env_dir = 0; // how 0: XCM_TLS_CERT as it stood at the creating call (0..2 d0..d2, 3 the link, 4 the k8s directory)
    int dir = 0;     // how 1: directory the attribute points into
    int slot = 0;    // file naming: 0 "<item>.pem", 1 "<item>_<ns>.pem" (how 0: the namespace of the creating call)
    int val = 0;     // how 2: set (cert, tc) or CRL variant
};
struct Desig { Src cert, tc, crl; bool check_crl = false; };

struct Conn {
    Ep subj, obs;
    int cert_set = -1; // which leaf the subject was told to present
    int tc_set = -1;
    bool alive = false;
};

struct Srv {
    Ep ep;
    std::string addr;
    Desig dg;
    int ns = 0;
    bool alive = false;
};

std::string subject_cn(Ep &observer)
{
    char buf[256] = "";
    int rc = call(observer, [&] { return xcm_attr_get_str(observer.s, "tls.peer.cert.subject.cn", buf, sizeof(buf)); });
    return rc >= 0 ? buf : "";
}

class C18 : public Harness {
public:
    const char *property() override { return "C18"; }
    size_t cfg_len() override { return 6; }
    size_t step_len() override { return 6; }
    size_t max_steps() override { return 40; }
    std::string base;
    Ep observer[2][2]; // [namespace][issuer]: kept-alive observer servers, trusting every set's root
    std::string obs_addr[2][2];
    int ncase = 0;

    // ---- a second, named network namespace (iproute2 convention: an entry in /run/netns)
    bool ns_ok = false;
    std::string ns_name;
    int ns_fd[2] = {-1, -1};
    int cur_ns = 0;

    void ns_setup()
    {
        if (getenv("VF_C18_NO_NETNS")) return;
        ns_name = "vf18-" + std::to_string((long)getpid());
        int lock = open("/run/.vf18-netns.lock", O_CREAT | O_RDWR, 0600);
        if (lock >= 0) flock(lock, LOCK_EX);
        // namespaces left behind by harness processes that were killed
        if (DIR *d = opendir("/run/netns")) {
            std::vector<std::string> stale;
            while (struct dirent *e = readdir(d)) {
                if (strncmp(e->d_name, "vf18-", 5) != 0) continue;
                long pid = atol(e->d_name + 5);
                if (pid > 0 && kill((pid_t)pid, 0) < 0 && errno == ESRCH) stale.push_back(e->d_name);
            }
            closedir(d);
            for (auto &n : stale) { std::string cmd = "ip netns del " + n + " >/dev/null 2>&1"; if (system(cmd.c_str()) != 0) {} }
        }
        std::string cmd = "ip netns add " + ns_name + " >/dev/null 2>&1 && ip -n " + ns_name + " link set lo up >/dev/null 2>&1";
        bool made = system(cmd.c_str()) == 0;
        if (lock >= 0) { flock(lock, LOCK_UN); close(lock); }
        if (!made) return;
        ns_fd[0] = open("/proc/self/ns/net", O_RDONLY | O_CLOEXEC);
        ns_fd[1] = open(("/run/netns/" + ns_name).c_str(), O_RDONLY | O_CLOEXEC);
        if (ns_fd[0] < 0 || ns_fd[1] < 0) return;
        if (setns(ns_fd[1], CLONE_NEWNET) < 0) return;
        if (setns(ns_fd[0], CLONE_NEWNET) < 0) return;
        ns_ok = true;
    }
    void enter(int ns)
    {
        if (!ns_ok || ns == cur_ns) return;
        if (setns(ns_fd[ns], CLONE_NEWNET) == 0) cur_ns = ns;
    }
    void teardown() override
    {
        enter(0);
        if (ns_name.empty()) return;
        std::string cmd = "ip netns del " + ns_name + " >/dev/null 2>&1";
        if (system(cmd.c_str()) != 0) {}
    }

    void setup() override
    {
        World::get();
        CRYPTO_get_ex_new_index(CRYPTO_EX_INDEX_SSL_CTX, 0, nullptr, ctx_new_cb, nullptr, ctx_free_cb);
        g_s.init();
        base = tmpdir() + "/c18";
        mkdir(base.c_str(), 0755);
        ns_setup();
        for (int ns = 0; ns < (ns_ok ? 2 : 1); ns++) {
            enter(ns);
            for (int j = 0; j < 2; j++) {
                Ep &ob = observer[ns][j];
                ob.tag = 40 + 2 * ns + j;
                struct xcm_attr_map *m = xcm_attr_map_create();
                xcm_attr_map_add_bool(m, "xcm.blocking", false);
                xcm_attr_map_add_bin(m, "tls.cert", g_s.obs_leaf[j]->cert_pem.data(), g_s.obs_leaf[j]->cert_pem.size());
                xcm_attr_map_add_bin(m, "tls.key", g_s.obs_leaf[j]->key_pem.data(), g_s.obs_leaf[j]->key_pem.size());
                xcm_attr_map_add_bin(m, "tls.tc", g_s.all_roots.data(), g_s.all_roots.size());
                ob.s = call(ob, [&] { return xcm_server_a("tls:127.0.0.1:0", m); });
                xcm_attr_map_destroy(m);
                if (ob.s) {
                    ob.closed = false;
                    const char *la = call(ob, [&] { return xcm_local_addr(ob.s); });
                    obs_addr[ns][j] = la ? la : "";
                }
            }
        }
        enter(0);
    }

    // ---- the file system model: what each (dir, naming slot, file) currently designates
    struct Dir { std::string path; int cert[2] = {-1, -1}, key[2] = {-1, -1}, tc[2] = {-1, -1}, crl[2] = {0, 0}; int last_how[2] = {0, 0}; };
    std::vector<Dir> dirs;
    int link_to = 0;
    int env_dir = 0; // 0..2 = d0..d2, 3 = the link, 4 = the k8s directory, 5 = the prelude directory
    std::string link, kdir;

    std::string fname(const char *item, int slot) { return slot ? std::string(item) + "_" + (ns_name.empty() ? "vf18-none" : ns_name) + ".pem" : std::string(item) + ".pem"; }

    void write_atomic(const std::string &path, const std::string &content)
    {
        std::string tmp = path + ".new";
        pki::write_file(tmp, content);
        rename(tmp.c_str(), path.c_str());
    }
    void write_in_place(const std::string &path, const std::string &content, bool keep_mtime)
    {
        struct stat sb;
        bool had = stat(path.c_str(), &sb) == 0;
        int fd = open(path.c_str(), O_WRONLY | O_CREAT, 0644);
        if (fd < 0) return;
        ssize_t n = pwrite(fd, content.data(), content.size(), 0);
        (void)n;
        if (ftruncate(fd, content.size()) < 0) {}
        close(fd);
        if (keep_mtime && had) {
            struct timespec ts[2] = {sb.st_atim, sb.st_mtim};
            utimensat(AT_FDCWD, path.c_str(), ts, 0);
        } else if (had) {
            // file systems stamp with a coarse clock: two writes a millisecond apart may get the same
            // mtime, which is the recorded identical-metadata finding, not what this step is about
            struct stat nb;
            if (stat(path.c_str(), &nb) == 0 && nb.st_mtim.tv_sec == sb.st_mtim.tv_sec && nb.st_mtim.tv_nsec == sb.st_mtim.tv_nsec) {
                struct timespec ts[2] = {sb.st_atim, sb.st_mtim};
                ts[1].tv_nsec += 10000000;
                if (ts[1].tv_nsec >= 1000000000) { ts[1].tv_nsec -= 1000000000; ts[1].tv_sec++; }
                utimensat(AT_FDCWD, path.c_str(), ts, 0);
            }
        }
    }
    void put_set(Dir &d, int slot, int set, int crlv, int how)
    {
        // how: 0 fresh inodes (rename over), 1 rewrite in place, 2 rewrite in place and restore mtime
        auto w = [&](const char *item, const std::string &content) {
            std::string p = d.path + "/" + fname(item, slot);
            if (how == 0) write_atomic(p, content); else write_in_place(p, content, how == 2);
        };
        w("cert", g_s.cert[set]);
        w("key", g_s.key[set]);
        w("tc", g_s.tc[set]);
        w("crl", g_s.crl[crlv]);
        d.cert[slot] = d.key[slot] = d.tc[slot] = set;
        d.crl[slot] = crlv;
        d.last_how[slot] = how;
    }

    // ---- the designation model
    Dir &dir_of(const Src &s) { return s.how == 0 ? (s.env_dir == 5 ? dirs[3] : s.env_dir >= 3 ? dirs[link_to] : dirs[s.env_dir]) : dirs[s.dir]; }
    int cert_now(const Src &s) { return s.how == 2 ? s.val : dir_of(s).cert[s.slot]; }
    int tc_now(const Src &s) { return s.how == 2 ? s.val : dir_of(s).tc[s.slot]; }
    int crl_now(const Src &s) { return s.how == 2 ? s.val : dir_of(s).crl[s.slot]; }
    std::string env_path() { return env_dir == 5 ? dirs[3].path : env_dir == 4 ? kdir : env_dir == 3 ? link : dirs[env_dir].path; }
    Dir &env_model() { return env_dir == 5 ? dirs[3] : env_dir >= 3 ? dirs[link_to] : dirs[env_dir]; }

    // per item: 0 default lookup, 1 attribute by file, 2 attribute by value
    Desig decode(uint32_t a, uint32_t b, uint32_t x, uint32_t y, uint32_t z)
    {
        Desig g;
        int attr_dir = b % 3, attr_slot = (z >> 3) % 2;
        g.cert.how = a % 3; g.tc.how = (a / 3) % 3;
        g.check_crl = (z >> 4) % 2;
        g.crl.how = (z >> 5) % 3;
        for (Src *s : {&g.cert, &g.tc, &g.crl}) { s->env_dir = env_dir; s->dir = attr_dir; s->slot = s->how == 0 ? cur_ns : attr_slot; }
        g.cert.val = x % NSETS;
        g.tc.val = y % NSETS;
        g.crl.val = (z >> 7) % 2;
        return g;
    }
    std::string apply(struct xcm_attr_map *m, const Desig &g)
    {
        std::string desc;
        auto where = [&](const Src &s) { return "d" + std::to_string(s.dir) + (s.slot ? " (<item>_<ns>.pem names)" : ""); };
        // certificate and key always travel together
        if (g.cert.how == 0) desc += "cert/key from the environment directory; ";
        else if (g.cert.how == 1) {
            xcm_attr_map_add_str(m, "tls.cert_file", (dirs[g.cert.dir].path + "/" + fname("cert", g.cert.slot)).c_str());
            xcm_attr_map_add_str(m, "tls.key_file", (dirs[g.cert.dir].path + "/" + fname("key", g.cert.slot)).c_str());
            desc += "tls.cert_file/key_file in " + where(g.cert) + "; ";
        } else {
            xcm_attr_map_add_bin(m, "tls.cert", g_s.cert[g.cert.val].data(), g_s.cert[g.cert.val].size());
            xcm_attr_map_add_bin(m, "tls.key", g_s.key[g.cert.val].data(), g_s.key[g.cert.val].size());
            desc += "tls.cert/key by value (set-" + std::to_string(g.cert.val) + "); ";
        }
        if (g.tc.how == 0) desc += "tc from the environment directory";
        else if (g.tc.how == 1) { xcm_attr_map_add_str(m, "tls.tc_file", (dirs[g.tc.dir].path + "/" + fname("tc", g.tc.slot)).c_str()); desc += "tls.tc_file in " + where(g.tc); }
        else { xcm_attr_map_add_bin(m, "tls.tc", g_s.tc[g.tc.val].data(), g_s.tc[g.tc.val].size()); desc += "tls.tc by value (set-" + std::to_string(g.tc.val) + ")"; }
        if (g.check_crl) {
            xcm_attr_map_add_bool(m, "tls.check_crl", true);
            if (g.crl.how == 0) desc += "; tls.check_crl, CRL from the environment directory";
            else if (g.crl.how == 1) { xcm_attr_map_add_str(m, "tls.crl_file", (dirs[g.crl.dir].path + "/" + fname("crl", g.crl.slot)).c_str()); desc += "; tls.check_crl, tls.crl_file in " + where(g.crl); }
            else { xcm_attr_map_add_bin(m, "tls.crl", g_s.crl[g.crl.val].data(), g_s.crl[g.crl.val].size()); desc += "; tls.check_crl, tls.crl by value"; }
        }
        static const char *HOWN[] = {"rename-over (fresh inodes)", "in-place rewrite", "in-place rewrite preserving size and mtime"};
        desc += "; files last changed by:";
        bool env_used = g.cert.how == 0 || g.tc.how == 0 || (g.check_crl && g.crl.how == 0);
        bool attr_used = g.cert.how == 1 || g.tc.how == 1 || (g.check_crl && g.crl.how == 1);
        if (env_used) desc += std::string(" env dir ") + HOWN[dir_of(g.cert.how == 0 ? g.cert : g.tc.how == 0 ? g.tc : g.crl).last_how[cur_ns]];
        if (attr_used) { const Src &s = g.cert.how == 1 ? g.cert : g.tc.how == 1 ? g.tc : g.crl; desc += std::string(" attribute dir ") + HOWN[dirs[s.dir].last_how[s.slot]]; }
        if (env_used && cur_ns) desc += "; calling thread in namespace " + ns_name;
        return desc;
    }

    std::vector<Srv> servers;

    // The whole history runs in a thread of its own, not the process's main thread: the namespace
    // that counts is the calling thread's (setns(2) moves one thread), which for the main thread
    // alone would coincide with what /proc/self reports.
    Outcome run(const Plan &p, Case &c) override
    {
        Outcome o = Outcome::pass();
        std::thread t([&] { cur_ns = 0; o = run_in_thread(p, c); enter(0); });
        t.join();
        cur_ns = 0;
        return o;
    }

    Outcome run_in_thread(const Plan &p, Case &c)
    {
        sh_reset();
        enter(0);
        VF_CHECK(observer[0][0].s && observer[0][1].s, "setup: observers");
        if (ns_ok) VF_CHECK(observer[1][0].s && observer[1][1].s, "setup: observers in the second namespace");
        ncase++;
        std::string root = base + "/case" + std::to_string(ncase % 4);
        std::string cmd = "rm -rf " + root;
        if (system(cmd.c_str()) != 0) {}
        mkdir(root.c_str(), 0755);
        dirs.clear();
        for (int i = 0; i < 3; i++) { Dir d; d.path = root + "/d" + std::to_string(i); mkdir(d.path.c_str(), 0755); dirs.push_back(d); }
        // d2 is reached through a symbolic link "cur" that is flipped between d0 and d1
        link = root + "/cur";
        link_to = 0;
        if (symlink("d0", link.c_str()) < 0) {}
        // a directory whose files are symbolic links reaching through the flipping link (the way
        // orchestrators publish secrets): the links never change, what they resolve to does
        kdir = root + "/k8s";
        mkdir(kdir.c_str(), 0755);
        for (int slot = 0; slot < 2; slot++)
            for (const char *item : {"cert", "key", "tc", "crl"}) { std::string f = fname(item, slot), t = "../cur/" + f; if (symlink(t.c_str(), (kdir + "/" + f).c_str()) < 0) {} }
        Dec cfg(p.cfg);
        env_dir = 0;
        uint32_t s0[3];
        for (int i = 0; i < 3; i++) s0[i] = cfg.ch(NSETS);
        for (int i = 0; i < 3; i++) {
            uint32_t w = cfg.raw();
            put_set(dirs[i], 0, (int)s0[i], (int)((w >> 8) % 2), 0);
            put_set(dirs[i], 1, (int)(w % NSETS), (int)((w >> 9) % 2), 0);
        }
        long ctx0 = g_ctx_live;
        std::vector<Conn> conns;
        servers.clear();
        struct Guard {
            C18 &h; std::vector<Conn> &v;
            ~Guard() { for (auto &x : v) { x_close(x.subj); x_close(x.obs); } for (auto &sv : h.servers) x_close(sv.ep); h.servers.clear(); h.enter(0); }
        } guard{*this, conns};
        Outcome o = Outcome::pass();
        bool nt = false;
        int updates_since_create = 0;
        // Prelude, the same in every case and in every replay: one default-lookup connection with
        // XCM_TLS_CERT naming a directory of its own, made and closed.  Whatever the library may
        // remember from a first use in the process (a directory, a name, a context) is thereby part
        // of every single history, and a failure caused by it reproduces from the plan alone.
        {
            Dir pd; pd.path = root + "/prelude"; mkdir(pd.path.c_str(), 0755); dirs.push_back(pd);
            put_set(dirs[3], 0, NSETS - 1, 0, 0);
            put_set(dirs[3], 1, NSETS - 1, 0, 0);
            env_dir = 5;
            setenv("XCM_TLS_CERT", env_path().c_str(), 1);
            o = create(c, conns, 0, 0, 0, (uint32_t)((env_model().tc[0] % 2) << 8), 0);
            for (auto &cn : conns) { x_close(cn.subj); x_close(cn.obs); cn.alive = false; }
            env_dir = 0;
            setenv("XCM_TLS_CERT", env_path().c_str(), 1);
        }
        // the history proper starts with one connection made entirely from the environment directory
        if (o.ok) o = create(c, conns, 0, 0, 0, (uint32_t)((env_model().tc[0] % 2) << 8), 0);
        size_t stepno = 0;
        for (auto &st : p.steps) {
            if (!o.ok) break;
            stepno++;
            Dec d(st);
            uint32_t k = d.ch(100);
            uint32_t a = d.raw(), b = d.raw(), x = d.raw(), y = d.raw(), z = d.raw();
            if (k < 14) { // new material with fresh inodes
                int di = a % 3, set = b % NSETS, slot = z % 2, crlv = (z >> 1) % 2;
                put_set(dirs[di], slot, set, crlv, 0);
                c.log("write set-%d (CRL variant %d) into d%d%s (rename over)", set, crlv, di, slot ? " under the <item>_<ns>.pem names" : "");
                updates_since_create++;
            } else if (k < 26) { // rewrite in place (same inode, same size)
                int di = a % 3, set = b % NSETS, slot = z % 2, crlv = (z >> 1) % 2;
                bool keep = x % 4 == 0;
                if (keep && excluded("credential-file-rewritten-with-identical-metadata")) { keep = false; count_exclusion("credential-file-rewritten-with-identical-metadata"); }
                put_set(dirs[di], slot, set, crlv, keep ? 2 : 1);
                c.log("rewrite d%d%s in place with set-%d, CRL variant %d (same size%s)", di, slot ? " (<item>_<ns>.pem names)" : "", set, crlv, keep ? ", mtime restored" : "");
                c.cls(keep ? "rewrite-in-place-same-size-same-mtime" : "rewrite-in-place-same-size");
                updates_since_create++;
            } else if (k < 32) { // flip the link
                link_to = 1 - link_to;
                std::string tmp = link + ".new";
                if (symlink(link_to ? "d1" : "d0", tmp.c_str()) == 0) rename(tmp.c_str(), link.c_str());
                c.log("symlink cur -> d%d", link_to);
                c.cls("symlink-flip");
                updates_since_create++;
            } else if (k < 40) {
                if (ns_ok && z % 2 == 1) { // the calling thread moves to the other network namespace
                    enter(1 - cur_ns);
                    c.log("setns: the thread is now in %s", cur_ns ? ("namespace " + ns_name).c_str() : "the unnamed initial namespace");
                    c.cls("namespace-switch");
                } else { // switch directory through the environment
                    env_dir = a % 5;
                    setenv("XCM_TLS_CERT", env_path().c_str(), 1);
                    c.log("XCM_TLS_CERT=%s", env_dir == 4 ? "k8s (file links through cur)" : env_dir == 3 ? "cur (link)" : ("d" + std::to_string(env_dir)).c_str());
                    if (env_dir == 4) c.cls("file-symlinks-through-flipping-directory-link");
                }
                updates_since_create++;
            } else if (k < 44) {
                o = split_pair(c, conns, a);
                nt = true;
            } else if (k < 72) { // create a connection
                bool live_older = false;
                for (auto &cn : conns) live_older |= cn.alive;
                for (auto &sv : servers) live_older |= sv.alive;
                if (live_older && updates_since_create > 0) { nt = true; c.cls("creation-after-update-with-older-socket-alive"); }
                if ((z >> 2) % 2) o = create_server_side(c, conns, a, b, x, y, z);
                else o = create(c, conns, a, b, x, y, z);
                updates_since_create = 0;
            } else if (k < 86) { // probe an established connection: still works, identity unchanged
                if (conns.empty()) continue;
                Conn &cn = conns[a % conns.size()];
                if (!cn.alive) continue;
                uint8_t m[16] = {1, 2, 3}, r[32];
                int rc = x_send(cn.subj, m, sizeof(m));
                VF_CHECK(rc == 0, "C18: an established connection stopped working after credential updates (send: %s)", errname(errno));
                int got = -1;
                for (int i = 0; i < 2000 && got < 0; i++) { x_finish(cn.subj); got = x_receive(cn.obs, r, sizeof(r)); if (got < 0 && errno != EAGAIN) break; if (got < 0) usleep(100); }
                VF_CHECK(got == 16, "C18: an established connection stopped delivering after credential updates (%d %s)", got, got < 0 ? errname(errno) : "");
                std::string cn_now = subject_cn(cn.obs);
                VF_CHECK(cn_now == "set-" + std::to_string(cn.cert_set), "C18: the peer identity of an established connection changed from set-%d to %s", cn.cert_set, cn_now.c_str());
            } else if (k < 96) {
                if (z % 4 == 3 && !servers.empty()) {
                    Srv &sv = servers[a % servers.size()];
                    if (sv.alive) { x_close(sv.ep); sv.alive = false; c.log("close a kept server socket"); }
                    continue;
                }
                if (conns.empty()) continue;
                Conn &cn = conns[a % conns.size()];
                if (cn.alive) { x_close(cn.subj); x_close(cn.obs); cn.alive = false; c.log("close a connection (set-%d)", cn.cert_set); }
            } else { // broken material in the environment directory
                o = broken(c, env_model(), env_model().path, a, z); // the real directory behind any links
            }
        }
        // ---- everything closed: cached contexts are released
        for (auto &cn : conns) { x_close(cn.subj); x_close(cn.obs); cn.alive = false; }
        for (auto &sv : servers) { x_close(sv.ep); sv.alive = false; }
        enter(0);
        if (o.ok) VF_CHECK(g_ctx_live == ctx0, "C18: %ld TLS context(s) are still alive after the last socket using them was closed", g_ctx_live - ctx0);
        c.nt(nt);
        return o;
    }

    void drain_observers()
    {
        for (int ns = 0; ns < 2; ns++)
            for (int j = 0; j < 2; j++)
                for (int i = 0; i < 16 && observer[ns][j].s; i++) {
                    sh_enter(99, 1);
                    struct xcm_socket *x = xcm_accept(observer[ns][j].s);
                    if (x) xcm_close(x);
                    sh_leave();
                    if (!x) break;
                }
    }

    // Two by-value configurations whose cert|key|tc texts concatenate to the same bytes but split
    // differently: X = (cert, key+CA1, CA0) designates trust {CA0}; Y = (cert, key, CA1+CA0)
    // designates trust {CA1, CA0}.  X stays alive while Y is created.
    Outcome split_pair(Case &c, std::vector<Conn> &conns, uint32_t a)
    {
        c.cls("by-value-split-pair");
        int vs = a % NSETS;
        std::string r0 = g_s.obs_root[0]->cert_pem, r1 = g_s.obs_root[1]->cert_pem;
        for (int which = 0; which < 2; which++) {
            std::string key = which == 0 ? g_s.key[vs] + r1 : g_s.key[vs];
            std::string tc = which == 0 ? r0 : r1 + r0;
            int oj = which == 0 ? 0 : 1; // X talks to observer 0, Y to observer 1 (which only Y trusts)
            drain_observers();
            struct xcm_attr_map *m = xcm_attr_map_create();
            xcm_attr_map_add_bool(m, "xcm.blocking", false);
            xcm_attr_map_add_bin(m, "tls.cert", g_s.cert[vs].data(), g_s.cert[vs].size());
            xcm_attr_map_add_bin(m, "tls.key", key.data(), key.size());
            xcm_attr_map_add_bin(m, "tls.tc", tc.data(), tc.size());
            conns.push_back(Conn());
            Conn &cn = conns.back();
            cn.subj.tag = 2; cn.obs.tag = 3;
            cn.subj.s = call(cn.subj, [&] { return xcm_connect_a(obs_addr[cur_ns][oj].c_str(), m); });
            int e = errno;
            xcm_attr_map_destroy(m);
            VF_CHECK(cn.subj.s != nullptr, "C18: by-value configuration %c refused: %s", which ? 'Y' : 'X', errname(e));
            cn.subj.closed = false;
            bool s_ready = false, o_ready = false;
            int s_err = 0;
            for (int i = 0; i < 4000; i++) {
                if (!cn.obs.s) { sh_enter(cn.obs.tag, 1); cn.obs.s = xcm_accept(observer[cur_ns][oj].s); sh_leave(); if (cn.obs.s) cn.obs.closed = false; }
                if (!s_ready && !s_err) { int rc = x_finish(cn.subj); if (rc == 0) s_ready = true; else if (errno != EAGAIN) s_err = errno; }
                if (cn.obs.s && !o_ready) { int rc = x_finish(cn.obs); if (rc == 0) o_ready = true; else if (errno != EAGAIN) break; }
                if ((s_ready && o_ready) || s_err) break;
                usleep(150);
            }
            c.log("by-value configuration %c (trust %s) to observer with issuer %d -> %s", which ? 'Y' : 'X', which ? "{CA1,CA0}" : "{CA0}", oj, s_ready ? "established" : errname(s_err));
            if (!(s_ready && o_ready)) {
                x_close(cn.subj); x_close(cn.obs);
                return failf("C18: by-value configuration %c designates a trust store containing the observer's issuer, yet the connection failed (%s)%s", which ? 'Y' : 'X', s_err ? errname(s_err) : "timeout",
                             which ? " - it shares a cached TLS context with configuration X, whose texts concatenate to the same bytes" : "");
            }
            cn.cert_set = vs; cn.tc_set = -1; cn.alive = true;
        }
        return Outcome::pass();
    }

    // drive a fresh subject/observer pair to a verdict and judge it against what was designated
    Outcome drive_and_judge(Case &c, Conn &cn, const std::function<void()> &try_accept, int want_cert, int want_tc, bool check_crl, int want_crl, int oj, const std::string &desc)
    {
        bool s_ready = false, o_ready = false;
        int s_err = 0;
        for (int i = 0; i < 4000; i++) {
            try_accept();
            if (cn.subj.s && !s_ready && !s_err) { int rc = x_finish(cn.subj); if (rc == 0) s_ready = true; else if (errno != EAGAIN) s_err = errno; }
            if (cn.obs.s && !o_ready) { int rc = x_finish(cn.obs); if (rc == 0) o_ready = true; else if (errno != EAGAIN) break; }
            if ((s_ready && o_ready) || s_err) break;
            usleep(150);
        }
        bool trusted = want_tc % 2 == oj;
        bool revoked = check_crl && want_crl == 1;
        if (check_crl) c.cls(revoked ? "crl-check:observer-revoked" : "crl-check:observer-not-revoked");
        if (!trusted) {
            VF_CHECK(!s_ready, "C18: the designated trust store (set-%d: observer issuer %d only) does not contain the observer's issuer %d, yet the connection was established - trust material of another configuration is in use [%s]", want_tc, want_tc % 2, oj, desc.c_str());
            x_close(cn.subj);
            x_close(cn.obs);
            c.cls("trust-probe:rejected");
            return Outcome::pass();
        }
        if (revoked) {
            VF_CHECK(!s_ready, "C18: the designated CRL revokes the observer's certificate, yet the connection was established - CRL material of another configuration is in use [%s]", desc.c_str());
            x_close(cn.subj);
            x_close(cn.obs);
            return Outcome::pass();
        }
        VF_CHECK(s_ready && o_ready, "C18: the designated trust store (set-%d) contains the observer's issuer%s, yet the connection failed (%s) - trust material of another configuration is in use? [%s]", want_tc,
                 check_crl ? " and the designated CRL does not revoke the observer" : "", s_err ? errname(s_err) : "timeout", desc.c_str());
        std::string seen = subject_cn(cn.obs);
        VF_CHECK(seen == "set-" + std::to_string(want_cert), "C18: the connection presents the certificate of '%s', the material designated at the time of the call is set-%d [%s]", seen.c_str(), want_cert, desc.c_str());
        cn.cert_set = want_cert;
        cn.tc_set = want_tc;
        cn.alive = true;
        c.cls("trust-probe:accepted");
        return Outcome::pass();
    }

    // designate material for a new client-side subject and check what it uses
    Outcome create(Case &c, std::vector<Conn> &conns, uint32_t a, uint32_t b, uint32_t x, uint32_t y, uint32_t z)
    {
        Desig g = decode(a, b, x, y, z);
        struct xcm_attr_map *m = xcm_attr_map_create();
        xcm_attr_map_add_bool(m, "xcm.blocking", false);
        std::string desc = apply(m, g);
        int want_cert = cert_now(g.cert), want_tc = tc_now(g.tc), want_crl = crl_now(g.crl);
        // which observer do we talk to?  One whose issuer the designated trust store contains, or not
        int oj = (y >> 8) % 2;
        int ns = cur_ns;
        if (ns && (g.cert.how == 0 || g.tc.how == 0 || (g.check_crl && g.crl.how == 0))) c.cls("default-lookup-in-named-namespace");
        drain_observers();
        // registered at once, so that every exit path closes it (a leaked socket would keep its
        // cached TLS context alive into the next case)
        conns.push_back(Conn());
        Conn &cn = conns.back();
        cn.subj.tag = 2;
        cn.obs.tag = 3;
        std::string addr = obs_addr[ns][oj];
        errno = 0;
        cn.subj.s = call(cn.subj, [&] { return xcm_connect_a(addr.c_str(), m); });
        int e = errno;
        xcm_attr_map_destroy(m);
        c.log("connect: %s -> designated leaf set-%d, trust of set-%d%s; observer issuer %d (%s)", desc.c_str(), want_cert, want_tc, g.check_crl ? (want_crl ? ", CRL revoking the observer" : ", CRL revoking nobody") : "", oj,
              want_tc % 2 == oj ? "trusted" : "not trusted");
        VF_CHECK(cn.subj.s != nullptr, "C18: xcm_connect_a with well-formed designated material failed: %s (%s)", errname(e), desc.c_str());
        cn.subj.closed = false;
        auto try_accept = [&] {
            if (cn.obs.s) return;
            sh_enter(cn.obs.tag, 1);
            cn.obs.s = xcm_accept(observer[ns][oj].s);
            sh_leave();
            if (cn.obs.s) cn.obs.closed = false;
        };
        return drive_and_judge(c, cn, try_accept, want_cert, want_tc, g.check_crl, want_crl, oj, desc);
    }

    // a server-side subject: the server socket is made now or was made earlier in the history; the
    // connection accepted from it uses the files the server's designation names as they stand at the
    // accept call, unless xcm_accept_a overrides an item
    Outcome create_server_side(Case &c, std::vector<Conn> &conns, uint32_t a, uint32_t b, uint32_t x, uint32_t y, uint32_t z)
    {
        c.cls("server-side-subject");
        std::vector<size_t> alive;
        for (size_t i = 0; i < servers.size(); i++) if (servers[i].alive) alive.push_back(i);
        bool reuse = (z >> 8) % 2 && !alive.empty();
        size_t si;
        if (!reuse) {
            if (servers.size() >= 6) { if (alive.empty()) return Outcome::pass(); reuse = true; }
        }
        if (!reuse) {
            Srv nsrv;
            nsrv.dg = decode(a, b, x, y, z);
            nsrv.ns = cur_ns;
            nsrv.ep.tag = 4;
            struct xcm_attr_map *m = xcm_attr_map_create();
            xcm_attr_map_add_bool(m, "xcm.blocking", false);
            std::string desc = apply(m, nsrv.dg);
            errno = 0;
            nsrv.ep.s = call(nsrv.ep, [&] { return xcm_server_a("tls:127.0.0.1:0", m); });
            int e = errno;
            xcm_attr_map_destroy(m);
            c.log("server: %s", desc.c_str());
            VF_CHECK(nsrv.ep.s != nullptr, "C18: xcm_server_a with well-formed designated material failed: %s (%s)", errname(e), desc.c_str());
            nsrv.ep.closed = false;
            const char *la = call(nsrv.ep, [&] { return xcm_local_addr(nsrv.ep.s); });
            nsrv.addr = la ? la : "";
            nsrv.alive = true;
            if (cur_ns && (nsrv.dg.cert.how == 0 || nsrv.dg.tc.how == 0)) c.cls("default-lookup-in-named-namespace");
            servers.push_back(std::move(nsrv));
            si = servers.size() - 1;
        } else {
            si = alive[(z >> 9) % alive.size()];
            c.cls("accept-from-server-made-earlier");
        }
        Srv &sv = servers[si];
        // what the accepted connection is designated to use, now
        Desig g = sv.dg;
        int ov = (z >> 12) % 4;
        struct xcm_attr_map *am = xcm_attr_map_create();
        std::string ovdesc = "no xcm_accept_a override";
        if (ov == 1) {
            Src s; s.how = 1; s.dir = (z >> 14) % 3; s.slot = (z >> 16) % 2;
            g.cert = s;
            xcm_attr_map_add_str(am, "tls.cert_file", (dirs[s.dir].path + "/" + fname("cert", s.slot)).c_str());
            xcm_attr_map_add_str(am, "tls.key_file", (dirs[s.dir].path + "/" + fname("key", s.slot)).c_str());
            ovdesc = "xcm_accept_a overrides tls.cert_file/key_file (d" + std::to_string(s.dir) + ")";
            c.cls("accept-override:cert-by-file");
        } else if (ov == 2) {
            Src s; s.how = 2; s.val = (z >> 14) % NSETS;
            g.tc = s;
            xcm_attr_map_add_bin(am, "tls.tc", g_s.tc[s.val].data(), g_s.tc[s.val].size());
            ovdesc = "xcm_accept_a overrides tls.tc by value (set-" + std::to_string(s.val) + ")";
            c.cls("accept-override:tc-by-value");
        } else if (ov == 3) {
            Src s; s.how = 2; s.val = (z >> 14) % NSETS;
            g.cert = s;
            xcm_attr_map_add_bin(am, "tls.cert", g_s.cert[s.val].data(), g_s.cert[s.val].size());
            xcm_attr_map_add_bin(am, "tls.key", g_s.key[s.val].data(), g_s.key[s.val].size());
            ovdesc = "xcm_accept_a overrides tls.cert/key by value (set-" + std::to_string(s.val) + ")";
            c.cls("accept-override:cert-by-value");
        }
        int want_cert = cert_now(g.cert), want_tc = tc_now(g.tc), want_crl = crl_now(g.crl);
        int oj = (y >> 8) % 2;
        static const char *HOWS[] = {"default lookup", "by file", "by value"};
        std::string desc = "accepted from a server designating cert/key " + std::string(HOWS[sv.dg.cert.how]) + ", tc " + HOWS[sv.dg.tc.how] + (sv.dg.check_crl ? std::string(", CRL ") + HOWS[sv.dg.crl.how] : "") +
                           (reuse ? " (server made earlier in the history)" : "") + "; " + ovdesc;
        c.log("accept: %s -> designated leaf set-%d, trust of set-%d%s; observer issuer %d (%s)", desc.c_str(), want_cert, want_tc, g.check_crl ? (want_crl ? ", CRL revoking the observer" : ", CRL revoking nobody") : "", oj,
              want_tc % 2 == oj ? "trusted" : "not trusted");
        conns.push_back(Conn());
        Conn &cn = conns.back();
        cn.subj.tag = 2;
        cn.obs.tag = 3;
        // the observer is a client presenting issuer oj's leaf and trusting every set's root
        {
            struct xcm_attr_map *m = xcm_attr_map_create();
            xcm_attr_map_add_bool(m, "xcm.blocking", false);
            xcm_attr_map_add_bin(m, "tls.cert", g_s.obs_leaf[oj]->cert_pem.data(), g_s.obs_leaf[oj]->cert_pem.size());
            xcm_attr_map_add_bin(m, "tls.key", g_s.obs_leaf[oj]->key_pem.data(), g_s.obs_leaf[oj]->key_pem.size());
            xcm_attr_map_add_bin(m, "tls.tc", g_s.all_roots.data(), g_s.all_roots.size());
            int back = cur_ns;
            enter(sv.ns); // the observer has to be in the listener's namespace to reach it
            cn.obs.s = call(cn.obs, [&] { return xcm_connect_a(sv.addr.c_str(), m); });
            int e = errno;
            enter(back);
            xcm_attr_map_destroy(m);
            if (!cn.obs.s) { xcm_attr_map_destroy(am); return failf("harness: observer client could not be created: %s", errname(e)); }
            cn.obs.closed = false;
        }
        int acc_err = 0;
        auto try_accept = [&] {
            if (cn.subj.s || acc_err) return;
            sh_enter(cn.subj.tag, 1);
            errno = 0;
            cn.subj.s = xcm_accept_a(sv.ep.s, am);
            int e = errno;
            sh_leave();
            if (cn.subj.s) cn.subj.closed = false;
            else if (e != EAGAIN) acc_err = e;
        };
        Outcome o = drive_and_judge(c, cn, try_accept, want_cert, want_tc, g.check_crl, want_crl, oj, desc);
        xcm_attr_map_destroy(am);
        if (o.ok && acc_err) return failf("C18: xcm_accept_a with well-formed designated material failed: %s [%s]", errname(acc_err), desc.c_str());
        return o;
    }

    // unreadable / malformed / mismatching material fails with EPROTO
    Outcome broken(Case &c, Dir &envd, const std::string &envpath, uint32_t a, uint32_t z)
    {
        int kind = z % 8 >= 1 && z % 8 <= 3 ? 6 + (int)(z % 8) : (int)(a % 7);
        static const char *KN[] = {"certificate file missing", "certificate file is garbage", "key does not match the certificate", "certificate path is a directory", "trust file missing",
                                   "trust bundle whose last entry is cut short", "trust bundle whose last entry is corrupt",
                                   "key of another algorithm (RSA) than the certificate (EC)", "certificate of another algorithm (RSA) than the key (EC)", "CRL file is garbage while tls.check_crl is set"};
        int slot = cur_ns;
        std::string cert = envpath + "/" + fname("cert", slot), key = envpath + "/" + fname("key", slot), tc = envpath + "/" + fname("tc", slot), crl = envpath + "/" + fname("crl", slot);
        std::string saved_cert = pki::read_file(cert), saved_key = pki::read_file(key), saved_tc = pki::read_file(tc), saved_crl = pki::read_file(crl);
        switch (kind) {
        case 0: unlink(cert.c_str()); break;
        case 1: write_atomic(cert, "-----BEGIN CERTIFICATE-----\nthis is not base64 at all\n-----END CERTIFICATE-----\n"); break;
        case 2: write_atomic(key, g_s.key[(envd.cert[slot] + 1) % NSETS]); break;
        case 3: unlink(cert.c_str()); mkdir(cert.c_str(), 0755); break;
        case 4: unlink(tc.c_str()); break;
        case 5: {
            // a valid CA followed by one caught in mid-write: no END line
            std::string second = g_s.root[(envd.tc[slot] + 1) % NSETS]->cert_pem;
            write_atomic(tc, saved_tc.substr(0, saved_tc.find_last_not_of('\n') + 1) + "\n" + second.substr(0, second.size() / 2));
            break;
        }
        case 6: {
            std::string second = g_s.root[(envd.tc[slot] + 2) % NSETS]->cert_pem;
            size_t mid = second.size() / 2;
            second[mid] = '!'; second[mid + 1] = '*';
            write_atomic(tc, saved_tc.substr(0, saved_tc.find_last_not_of('\n') + 1) + "\n" + second);
            break;
        }
        case 7: write_atomic(key, g_s.rsa_leaf->key_pem); break;
        case 8: write_atomic(cert, g_s.rsa_leaf->cert_pem); break;
        default: write_atomic(crl, "-----BEGIN X509 CRL-----\nnot a revocation list\n-----END X509 CRL-----\n"); break;
        }
        Ep s;
        s.tag = 2;
        struct xcm_attr_map *m = xcm_attr_map_create();
        xcm_attr_map_add_bool(m, "xcm.blocking", false);
        if (kind == 9) xcm_attr_map_add_bool(m, "tls.check_crl", true);
        errno = 0;
        bool server = (a >> 4) % 2;
        s.s = call(s, [&] { return server ? xcm_server_a("tls:127.0.0.1:0", m) : xcm_connect_a(obs_addr[cur_ns][0].c_str(), m); });
        int e = errno;
        xcm_attr_map_destroy(m);
        c.log("broken material (%s) -> %s: %s", KN[kind], server ? "xcm_server_a" : "xcm_connect_a", s.s ? "socket" : errname(e));
        c.cls(std::string("broken:") + KN[kind]);
        bool made = s.s != nullptr;
        if (s.s) { s.closed = false; x_close(s); }
        // restore
        if (kind == 3) rmdir(cert.c_str());
        write_atomic(cert, saved_cert);
        write_atomic(key, saved_key);
        write_atomic(tc, saved_tc);
        write_atomic(crl, saved_crl);
        drain_observers();
        VF_CHECK(!made, "C18: %s succeeded although %s", server ? "xcm_server_a" : "xcm_connect_a", KN[kind]);
        VF_CHECK(e == EPROTO, "C18: %s with broken material (%s) failed with %s (want EPROTO)", server ? "xcm_server_a" : "xcm_connect_a", KN[kind], errname(e));
        return Outcome::pass();
    }
};

} // namespace

namespace vf {
Harness *make_harness() { return new C18(); }
}
