// C14 - the control interface is passive and safe.
//
// Owner sockets (server and connection sockets, small and large attribute
// sets) live in the harness process with the control interface enabled.
// Clients: raw AF_UNIX SEQPACKET sessions speaking and mis-speaking
// common/ctl_proto.h (driven from the main thread), and the real libxcmctl
// client (in a helper thread, since it blocks) - interleaved with traffic on
// the owner's connection, which is also what makes XCM serve the control
// sockets.  Oracles: ASan/UBSan + no abort, the C01 ledger on the owner's
// connection, replies == in-process xcm_attr_get / xcm_attr_get_all, the
// private key never on the wire, control files gone after close, and (C05) no
// sleeping primitive inside the owner's non-blocking calls.
#include "vf.h"
#include "xpair.h"

#include <algorithm>
#include <dirent.h>
#include <pthread.h>
#include <sys/socket.h>
#include <sys/stat.h>
#include <sys/un.h>

extern "C" {
#include "ctl_proto.h"
#include "xcmc.h"
}

using namespace vf;
using namespace xp;

#define VF_CHECK_GOTO(cond, o, ...)                          \
    do {                                                     \
        if (!(cond)) { o = vf::failf(__VA_ARGS__); goto out; } \
    } while (0)

namespace {

double now_s()
{
    struct timespec ts;
    clock_gettime(CLOCK_MONOTONIC, &ts);
    return ts.tv_sec + ts.tv_nsec / 1e9;
}

std::string g_ctl;

std::vector<std::string> ctl_files()
{
    std::vector<std::string> v;
    DIR *d = opendir(g_ctl.c_str());
    if (!d) return v;
    struct dirent *e;
    while ((e = readdir(d))) if (e->d_name[0] != '.') v.push_back(e->d_name);
    closedir(d);
    std::sort(v.begin(), v.end());
    return v;
}

struct AttrVal { int type; std::string bytes; };
typedef std::map<std::string, AttrVal> AttrSet;

bool is_volatile(const std::string &n)
{
    return n == "tcp.rtt" || n == "tcp.total_retrans" || n == "tcp.segs_in" || n == "tcp.segs_out" || n.find("_bytes") != std::string::npos || n.find("_msgs") != std::string::npos;
}

AttrSet in_process_all(Ep &e)
{
    AttrSet s;
    call(e, [&] {
        xcm_attr_get_all(e.s, [](const char *name, enum xcm_attr_type type, void *value, size_t len, void *cb) {
            (*(AttrSet *)cb)[name] = AttrVal{(int)type, std::string((const char *)value, len)};
        }, &s);
        return 0;
    });
    return s;
}

struct Session {
    int fd = -1;
    bool first = true;
    int outstanding = 0; // requests sent whose reply has not been read
    std::vector<std::string> expect; // attribute name per outstanding well-formed get-attr ("*" = get-all, "" = not judged)
};

struct XcmcJob {
    pid_t pid;
    int64_t sock_ref;
    std::vector<std::string> reqs; // names; "*" = get all
    volatile int done = 0;
    struct Res { std::string name; int rc; int err; int type; std::string bytes; AttrSet all; };
    std::vector<Res> res;
    std::string open_err;
    static void *main(void *arg)
    {
        XcmcJob *j = (XcmcJob *)arg;
        struct xcmc_session *s = xcmc_open(j->pid, j->sock_ref);
        if (!s) { j->open_err = errname(errno); j->done = 1; return nullptr; }
        for (auto &n : j->reqs) {
            Res r;
            r.name = n;
            if (n == "*") {
                r.rc = xcmc_attr_get_all(s, [](const char *name, enum xcm_attr_type type, void *value, size_t len, void *cb) {
                    (*(AttrSet *)cb)[name] = AttrVal{(int)type, std::string((const char *)value, len)};
                }, &r.all);
                r.err = errno;
            } else {
                enum xcm_attr_type t = (enum xcm_attr_type)0;
                char buf[1024];
                r.rc = xcmc_attr_get(s, n.c_str(), &t, buf, sizeof(buf));
                r.err = errno;
                r.type = t;
                if (r.rc >= 0) r.bytes.assign(buf, r.rc);
            }
            j->res.push_back(r);
            if (r.rc < 0 && (r.err == EAGAIN || r.err == ETIMEDOUT)) {
                // the client library gave up waiting (its own time-out, on a loaded machine): the reply
                // may still come and would be taken for the answer to the next request - a client that
                // wants to go on starts a new session
                xcmc_close(s);
                s = xcmc_open(j->pid, j->sock_ref);
                if (!s) { j->open_err = errname(errno); j->done = 1; return nullptr; }
            }
        }
        xcmc_close(s);
        j->done = 1;
        return nullptr;
    }
};

class C14 : public Harness {
public:
    const char *property() override { return "C14"; }
    size_t cfg_len() override { return 10; }
    size_t step_len() override { return 5; }
    size_t max_steps() override { return 60; }
    pki::CertP many_sans[3];
    std::string key_body; // base64 body lines of every private key that must stay secret

    void setup() override
    {
        g_ctl = tmpdir() + "/ctl14";
        mkdir(g_ctl.c_str(), 0755);
        World &w = World::get();
        setenv("XCM_CTL", g_ctl.c_str(), 1);
        static const int NS[] = {3, 14, 40};
        for (int k = 0; k < 3; k++) {
            pki::CertSpec sp;
            sp.cn = "many-sans-" + std::to_string(NS[k]);
            for (int i = 0; i < NS[k]; i++) {
                sp.dns_sans.push_back("host" + std::to_string(i) + ".many.example.com");
                sp.email_sans.push_back("user" + std::to_string(i) + "@many.example.com");
                sp.dir_sans.push_back("dir-" + std::to_string(i));
            }
            many_sans[k] = pki::make_cert(sp, w.pki.root.get());
        }
    }

    // distinctive substrings of a private key PEM (base64 lines)
    static std::vector<std::string> secret_lines(const std::string &pem)
    {
        std::vector<std::string> v;
        size_t p0 = 0;
        while (p0 < pem.size()) {
            size_t e = pem.find('\n', p0);
            std::string l = pem.substr(p0, e == std::string::npos ? std::string::npos : e - p0);
            if (l.size() >= 24 && l[0] != '-') v.push_back(l.substr(0, 24));
            if (e == std::string::npos) break;
            p0 = e + 1;
        }
        return v;
    }

    Outcome run(const Plan &p, Case &c) override
    {
        sh_reset();
        Dec cfg(p.cfg);
        World &w = World::get();
        int kind = (int)cfg.ch(7);
        int sans = (int)cfg.ch(3);
        bool use_xcmc = cfg.ch(3) != 0;
        uint32_t seed = cfg.raw();
        std::vector<std::string> before = ctl_files();
        // ---- owner: a connection (with its peer) or a server socket
        Ep owner, peer, srv;
        owner.tag = 2; peer.tag = 3; srv.tag = 30;
        bool owner_is_server = false;
        std::vector<std::string> secrets;
        struct Guard { Ep &a, &b, &c; ~Guard() { x_close(a); x_close(b); x_close(c); } } guard{owner, peer, srv};
        int tp = kind == 0 ? UX : kind == 1 ? TCP : kind == 2 ? BTCP : TLS;
        std::string err;
        {
            // own server so that its control socket is part of the picture
            std::string addr = tp == UX ? "ux:c14-" + std::to_string(getpid()) : std::string(World::server_proto(tp)) + ":127.0.0.1:0";
            struct xcm_attr_map *sm = xcm_attr_map_create();
            xcm_attr_map_add_bool(sm, "xcm.blocking", false);
            if (tp == BTCP) xcm_attr_map_add_str(sm, "xcm.service", "bytestream");
            if (kind == 6) {
                std::string names;
                for (int i = 0; i < 30; i++) names += (i ? ":" : "") + std::string("a-rather-long-acceptable-peer-name-") + std::to_string(i) + ".example.com";
                xcm_attr_map_add_bool(sm, "tls.verify_peer_name", true);
                xcm_attr_map_add_str(sm, "tls.peer_names", names.c_str());
            }
            srv.s = call(srv, [&] { return xcm_server_a(addr.c_str(), sm); });
            int e = errno;
            xcm_attr_map_destroy(sm);
            VF_CHECK(srv.s != nullptr, "setup: server %s: %s", addr.c_str(), errname(e));
            srv.closed = false;
            std::string caddr = addr;
            if (tp != UX) { const char *la = call(srv, [&] { return xcm_local_addr(srv.s); }); std::string l = la ? la : ""; caddr = World::client_proto(tp) + l.substr(l.find(':')); }
            if (kind == 5 || kind == 6) { owner = srv; owner_is_server = true; srv = Ep(); c.cls(kind == 6 ? "owner:tls-server-long-peer-names" : "owner:tls-server"); }
            else {
                struct xcm_attr_map *cm = xcm_attr_map_create();
                xcm_attr_map_add_bool(cm, "xcm.blocking", false);
                if (tp == BTCP) xcm_attr_map_add_str(cm, "xcm.service", "bytestream");
                if (kind == 3 || kind == 4) {
                    // credentials by value; kind 4: a certificate with many subject alternative names
                    pki::Cert &leaf = kind == 4 ? *many_sans[sans] : *w.pki.leaf;
                    xcm_attr_map_add_bin(cm, "tls.cert", leaf.cert_pem.data(), leaf.cert_pem.size());
                    xcm_attr_map_add_bin(cm, "tls.key", leaf.key_pem.data(), leaf.key_pem.size());
                    xcm_attr_map_add_bin(cm, "tls.tc", w.pki.root->cert_pem.data(), w.pki.root->cert_pem.size());
                    secrets = secret_lines(leaf.key_pem);
                }
                // the *accepted* side sees the many-SAN peer certificate: that is the owner in kind 4
                Ep &cl = kind == 4 ? peer : owner;
                Ep &ac = kind == 4 ? owner : peer;
                cl.s = call(cl, [&] { return xcm_connect_a(caddr.c_str(), cm); });
                e = errno;
                xcm_attr_map_destroy(cm);
                VF_CHECK(cl.s != nullptr, "setup: connect %s: %s", caddr.c_str(), errname(e));
                cl.closed = false;
                for (int i = 0; i < 3000 && !ac.s; i++) {
                    sh_enter(ac.tag, 1);
                    ac.s = xcm_accept(srv.s);
                    sh_leave();
                    if (!ac.s) { x_finish(cl); usleep(300); }
                }
                VF_CHECK(ac.s != nullptr, "setup: accept failed");
                ac.closed = false;
                bool r1 = false, r2 = false;
                for (int i = 0; i < 4000 && !(r1 && r2); i++) { r1 = r1 || x_finish(cl) == 0; r2 = r2 || x_finish(ac) == 0; if (!(r1 && r2)) usleep(300); }
                VF_CHECK(r1 && r2, "setup: connection not ready");
                static const char *KN[] = {"ux-conn", "tcp-conn", "btcp-conn", "tls-conn-by-value-credentials", "tls-accepted-peer-with-many-SANs"};
                c.cls(std::string("owner:") + KN[kind]);
                if (kind == 4) c.cls("owner-peer-SANs:" + std::to_string(sans == 0 ? 3 : sans == 1 ? 14 : 40) + "x3");
            }
        }
        // which control socket belongs to the owner?  (name: ctl-<pid>-<socket id>)
        std::vector<std::string> now = ctl_files();
        AttrSet truth = in_process_all(owner);
        c.log("owner has %zu attributes; %zu control sockets exist", truth.size(), now.size());
        // find it by asking each new control socket for xcm.type/xcm.local_addr... simpler: the
        // owner's socket id is not exposed, so probe: the right one answers xcm.local_addr like the owner
        std::string owner_path;
        int64_t owner_ref = -1;
        {
            std::string want_la;
            { const char *la = call(owner, [&] { return xcm_local_addr(owner.s); }); want_la = la ? la : ""; }
            std::string want_ra;
            if (!owner_is_server) { const char *ra = call(owner, [&] { return xcm_remote_addr(owner.s); }); want_ra = ra ? ra : ""; }
            for (auto &f : now) {
                if (std::find(before.begin(), before.end(), f) != before.end()) continue;
                int fd = raw_connect(g_ctl + "/" + f);
                if (fd < 0) continue;
                std::string la, ra, ty;
                bool ok1 = raw_get(owner, peer, srv, fd, "xcm.local_addr", la) && raw_get(owner, peer, srv, fd, "xcm.type", ty);
                bool ok2 = owner_is_server || raw_get(owner, peer, srv, fd, "xcm.remote_addr", ra);
                close(fd);
                pump(owner, peer, srv, 8);
                if (ok1 && ok2 && la == want_la && ra == want_ra && ty == (owner_is_server ? "server" : "connection")) { owner_path = g_ctl + "/" + f; owner_ref = atoll(f.substr(f.rfind('-') + 1).c_str()); }
            }
        }
        VF_CHECK(!owner_path.empty(), "C14: no control socket in %s answers for the owner socket (ctl files: %zu new)", g_ctl.c_str(), now.size() - before.size());
        // ---- sessions
        Session ses[4];
        std::vector<std::string> names;
        for (auto &kv : truth) names.push_back(kv.first);
        static const char *EXTRA[] = {"tls.key", "xcm.nonexistent", "tls.peer.cert.san.dns[1000]", "xcm", "", "a.b.c.d.e.f.g.h.i.j.k.l.m.n.o.p.q.r.s.t.u.v.w.x.y.z.a.b.c.d.e", "tls.cert", "tls.tc"};
        Outcome o = Outcome::pass();
        uint64_t ledger_sent = 0, ledger_rcvd = 0;
        std::vector<std::pair<uint32_t, uint32_t>> sent;
        bool nt = truth.size() >= 60;
        for (auto &kv : truth) if (kv.second.bytes.size() > CTL_ATTR_VALUE_MAX) nt = true;
        size_t stepno = 0;
        for (auto &st : p.steps) {
            if (!o.ok) break;
            stepno++;
            Dec d(st);
            uint32_t k = d.ch(100);
            int si = (int)d.ch(4);
            uint32_t x = d.raw(), y = d.raw();
            Session &s = ses[si];
            if (k < 12) { // open
                if (s.fd < 0) { s.fd = raw_connect(owner_path); s.first = true; s.outstanding = 0; s.expect.clear(); if (s.fd >= 0) c.log("session %d opened", si); }
            } else if (k < 40) { // well-formed get-attr
                if (s.fd < 0) continue;
                std::string n = x % 4 == 0 ? EXTRA[y % 8] : names.empty() ? "xcm.type" : names[y % names.size()];
                if (n.size() >= XCM_ATTR_NAME_MAX) continue;
                struct ctl_proto_msg *m = (struct ctl_proto_msg *)calloc(1, sizeof(*m));
                m->type = ctl_proto_type_get_attr_req;
                strcpy(m->get_attr_req.attr_name, n.c_str());
                ssize_t rc = send(s.fd, m, sizeof(*m), MSG_NOSIGNAL | MSG_DONTWAIT);
                free(m);
                if (rc == (ssize_t)sizeof(*m)) { s.outstanding++; s.expect.push_back(n); s.first = false; c.log("session %d: get-attr %s", si, n.c_str()); }
            } else if (k < 52) { // get-all, possibly as the first request of the session
                if (s.fd < 0) continue;
                struct ctl_proto_msg *m = (struct ctl_proto_msg *)calloc(1, sizeof(*m));
                m->type = ctl_proto_type_get_all_attr_req;
                ssize_t rc = send(s.fd, m, sizeof(*m), MSG_NOSIGNAL | MSG_DONTWAIT);
                free(m);
                if (rc == (ssize_t)sizeof(*m)) { if (s.first) { nt = true; c.cls("get-all-as-first-request"); } s.outstanding++; s.expect.push_back("*"); s.first = false; c.log("session %d: get-all", si); }
            } else if (k < 66) { // malformed
                if (s.fd < 0) continue;
                nt = true;
                size_t full = sizeof(struct ctl_proto_msg);
                static const long SZ[] = {1, 4, 63, 64, 68, -1, -2, 1000, 65536, 0};
                long sz = SZ[x % 10];
                size_t len = sz == -1 ? full - 1 : sz == -2 ? full + 1 : sz == 0 ? full : (size_t)sz;
                std::vector<uint8_t> b(len);
                for (size_t i = 0; i < len; i++) b[i] = 1 + prf_byte(y, (uint32_t)i) % 254; // no NUL anywhere
                int variant = (int)(y % 4);
                if (len >= 4) { uint32_t t = variant == 0 ? ctl_proto_type_get_attr_req : variant == 1 ? 77 : variant == 2 ? ctl_proto_type_get_attr_cfm : 0xffffffffu; memcpy(b.data(), &t, 4); }
                ssize_t rc = send(s.fd, b.data(), len, MSG_NOSIGNAL | MSG_DONTWAIT);
                c.log("session %d: malformed datagram of %zu bytes (type field %s) -> %zd", si, len, variant == 0 ? "get-attr, name without terminator" : "bogus", rc);
                c.cls(len == full && variant == 0 ? "unterminated-attribute-name" : len == full ? "unknown-request-type" : "wrong-size-datagram");
                // whatever the server does with it (drop the session, ignore), replies can no longer be matched
                for (auto &e : s.expect) e = e.empty() ? e : e;
                s.expect.push_back("");
                s.outstanding++;
            } else if (k < 74) { // disconnect in mid-exchange
                if (s.fd >= 0) { c.log("session %d closes with %d replies unread", si, s.outstanding); if (s.outstanding) { nt = true; c.cls("disconnect-mid-exchange"); } close(s.fd); s = Session(); }
            } else if (k < 86) { // read replies
                if (s.fd >= 0) o = read_replies(c, s, owner, truth, secrets);
            } else if (k < 93 && use_xcmc && owner_ref >= 0) { // the real client library
                XcmcJob job;
                job.pid = getpid();
                job.sock_ref = owner_ref;
                int n = 1 + (int)(x % 4);
                for (int i = 0; i < n; i++) {
                    uint32_t r = mix32(y, i);
                    job.reqs.push_back(r % 3 == 0 ? "*" : r % 7 == 1 ? "tls.key" : names.empty() ? "xcm.type" : names[r % names.size()]);
                }
                if (job.reqs[0] == "*") { nt = true; c.cls("xcmc:get-all-as-first-request"); }
                o = run_xcmc(c, job, owner, peer, srv, truth, secrets, ses);
            } else {
                // data-path traffic on the owner's connection
                if (owner_is_server || peer.closed) { pump(owner, peer, srv, 6); continue; }
                uint32_t len = 1 + x % 300;
                std::vector<uint8_t> b(len);
                prf_fill(y, b.data(), len);
                int rc = x_send(owner, b.data(), len);
                if (rc == 0 || rc > 0) { sent.push_back({y, rc > 0 ? (uint32_t)rc : len}); ledger_sent++; }
            }
            // the application keeps using its sockets: this is what serves the control interface
            pump(owner, peer, srv, 3);
            if (!owner_is_server && !peer.closed) o = o.ok ? drain_peer(peer, sent, ledger_rcvd, tp == BTCP) : o;
            if (o.ok && sh_sleep_violations()) o = failf("C05/C14: %s (control interface served from a non-blocking call)", sh_sleep_violation_text());
        }
        // ---- wrap up: read whatever replies are still due
        for (int round = 0; round < 40 && o.ok; round++) {
            pump(owner, peer, srv, 6);
            for (auto &s : ses) if (s.fd >= 0 && o.ok) o = read_replies(c, s, owner, truth, secrets);
        }
        if (o.ok && !owner_is_server && !peer.closed) {
            for (int i = 0; i < 400 && ledger_rcvd < ledger_sent && o.ok; i++) { x_finish(owner); o = drain_peer(peer, sent, ledger_rcvd, tp == BTCP); if (ledger_rcvd < ledger_sent) usleep(300); }
            if (o.ok) VF_CHECK(ledger_rcvd == ledger_sent, "C14: %lu of %lu messages sent on the owner's connection arrived while control sessions were active", (unsigned long)ledger_rcvd, (unsigned long)ledger_sent);
        }
        for (auto &s : ses) if (s.fd >= 0) close(s.fd);
        // ---- control files disappear with their sockets
        x_close(owner); x_close(peer); x_close(srv);
        if (o.ok) {
            std::vector<std::string> after = ctl_files();
            std::string left;
            for (auto &f : after) if (std::find(before.begin(), before.end(), f) == before.end()) left += f + " ";
            VF_CHECK(left.empty(), "C14: control files left behind after the sockets were closed: %s", left.c_str());
        }
        c.nt(nt);
        return o;
    }

    int raw_connect(const std::string &path)
    {
        int fd = socket(AF_UNIX, SOCK_SEQPACKET | SOCK_NONBLOCK, 0);
        struct sockaddr_un a;
        memset(&a, 0, sizeof(a));
        a.sun_family = AF_UNIX;
        strncpy(a.sun_path, path.c_str(), sizeof(a.sun_path) - 1);
        if (connect(fd, (struct sockaddr *)&a, sizeof(a)) < 0) { close(fd); return -1; }
        return fd;
    }

    // the application uses its sockets (non-blocking calls that have nothing to do)
    void pump(Ep &owner, Ep &peer, Ep &srv, int rounds)
    {
        uint8_t tmp[16];
        for (int r = 0; r < rounds; r++) {
            for (Ep *e : {&owner, &srv, &peer}) {
                if (!e->s || e->closed) continue;
                bool is_server = e == &srv || (e == &owner && srv.s == nullptr && peer.s == nullptr);
                if (is_server) { sh_enter(90, 1); struct xcm_socket *x = xcm_accept(e->s); if (x) xcm_close(x); sh_leave(); }
                else if (e == &peer) x_finish(*e);
                else { int rc = x_receive(*e, tmp, sizeof(tmp)); (void)rc; x_finish(*e); }
            }
        }
    }

    Outcome drain_peer(Ep &peer, std::vector<std::pair<uint32_t, uint32_t>> &sent, uint64_t &rcvd, bool bs)
    {
        static std::vector<uint8_t> buf(70000);
        for (int n = 0; n < 20; n++) {
            int rc = x_receive(peer, buf.data(), bs ? (rcvd < sent.size() ? sent[rcvd].second : 1) : buf.size());
            if (rc < 0 && errno == EAGAIN) break;
            VF_CHECK(rc > 0, "C14: the owner's connection broke (peer receive %d %s) while control sessions were active", rc, rc < 0 ? errname(errno) : "");
            VF_CHECK(rcvd < sent.size(), "C14: the peer received a message that was never sent");
            if (bs && (uint32_t)rc < sent[rcvd].second) { // partial read of a byte-stream chunk: compare and keep the rest
                for (int k = 0; k < rc; k++) VF_CHECK(buf[k] == prf_byte(sent[rcvd].first, k + 0), "C14: data-path bytes altered");
                // simplification: re-queue the remainder as its own chunk is not possible with the PRF offset; read the rest now
                size_t got = rc;
                for (int tries = 0; tries < 2000 && got < sent[rcvd].second; tries++) {
                    int r2 = x_receive(peer, buf.data() + got, sent[rcvd].second - got);
                    if (r2 > 0) got += r2; else usleep(100);
                }
                rc = (int)got;
            }
            VF_CHECK((uint32_t)rc == sent[rcvd].second, "C14: data-path message #%lu has %u bytes, %d arrived", (unsigned long)rcvd, sent[rcvd].second, rc);
            for (int k = 0; k < rc; k++) VF_CHECK(buf[k] == prf_byte(sent[rcvd].first, k), "C14: data-path message #%lu altered at byte %d", (unsigned long)rcvd, k);
            rcvd++;
        }
        return Outcome::pass();
    }

    // synchronous raw get-attr used during set-up only
    bool raw_get(Ep &owner, Ep &peer, Ep &srv, int fd, const char *name, std::string &out)
    {
        struct ctl_proto_msg *m = (struct ctl_proto_msg *)calloc(1, sizeof(*m));
        m->type = ctl_proto_type_get_attr_req;
        strcpy(m->get_attr_req.attr_name, name);
        ssize_t rc = send(fd, m, sizeof(*m), MSG_NOSIGNAL | MSG_DONTWAIT);
        bool ok = false;
        if (rc == (ssize_t)sizeof(*m)) {
            for (int i = 0; i < 200 && !ok; i++) {
                pump(owner, peer, srv, 3);
                ssize_t n = recv(fd, m, sizeof(*m), MSG_DONTWAIT);
                if (n == (ssize_t)sizeof(*m)) { ok = m->type == ctl_proto_type_get_attr_cfm && m->get_attr_cfm.attr.value_len <= CTL_ATTR_VALUE_MAX; if (ok) out.assign(m->get_attr_cfm.attr.str_value, strnlen(m->get_attr_cfm.attr.str_value, CTL_ATTR_VALUE_MAX)); break; }
                if (n >= 0 || (errno != EAGAIN)) break;
            }
        }
        free(m);
        return ok;
    }

    Outcome check_secret(const void *data, size_t len, const std::vector<std::string> &secrets, const char *where)
    {
        for (auto &s : secrets)
            if (memmem(data, len, s.data(), s.size()))
                return failf("C14: a reply (%s) contains private-key material (\"%s...\")", where, s.substr(0, 12).c_str());
        return Outcome::pass();
    }

    Outcome judge_attr(const std::string &name, bool cfm, int rej_errno, int type, const std::string &bytes, Ep &owner, const AttrSet &truth, const char *via)
    {
        // in-process answer right now
        enum xcm_attr_type t = (enum xcm_attr_type)0;
        char buf[CTL_ATTR_VALUE_MAX];
        errno = 0;
        int rc = call(owner, [&] { return xcm_attr_get(owner.s, name.c_str(), &t, buf, sizeof(buf)); });
        int e = errno;
        if (name == "tls.key") {
            VF_CHECK(!cfm && rej_errno == EACCES, "C14 (%s): tls.key was %s (want a rejection with EACCES)", via, cfm ? "disclosed" : errname(rej_errno));
            return Outcome::pass();
        }
        if (rc < 0) {
            VF_CHECK(!cfm, "C14 (%s): %s is refused in-process (%s) but the control interface returned a value", via, name.c_str(), errname(e));
            VF_CHECK(rej_errno == e, "C14 (%s): %s is refused in-process with %s, over the control interface with %s", via, name.c_str(), errname(e), errname(rej_errno));
            return Outcome::pass();
        }
        VF_CHECK(cfm, "C14 (%s): %s has a value in-process but the control interface rejected the query with %s", via, name.c_str(), errname(rej_errno));
        VF_CHECK(type == (int)t, "C14 (%s): %s has type %d in-process, %d over the control interface", via, name.c_str(), (int)t, type);
        if (!is_volatile(name)) {
            VF_CHECK(bytes.size() == (size_t)rc && memcmp(bytes.data(), buf, rc) == 0, "C14 (%s): %s: the control interface returned %zu bytes (%s), in-process xcm_attr_get returns %d bytes (%s)", via, name.c_str(),
                     bytes.size(), hex(bytes.data(), bytes.size(), 24).c_str(), rc, hex(buf, rc, 24).c_str());
        }
        return Outcome::pass();
    }

    Outcome judge_all(const AttrSet &got, Ep &owner, const char *via)
    {
        AttrSet truth = in_process_all(owner);
        size_t fitting = 0;
        for (auto &kv : truth) if (kv.first != "tls.key" && kv.second.bytes.size() <= CTL_ATTR_VALUE_MAX && kv.first.size() < XCM_ATTR_NAME_MAX) fitting++;
        for (auto &kv : got) {
            VF_CHECK(kv.first != "tls.key", "C14 (%s): get-all discloses tls.key", via);
            auto it = truth.find(kv.first);
            VF_CHECK(it != truth.end(), "C14 (%s): get-all reports an attribute '%s' the socket does not have", via, kv.first.c_str());
            VF_CHECK(kv.second.type == it->second.type, "C14 (%s): get-all: %s has type %d, in-process %d", via, kv.first.c_str(), kv.second.type, it->second.type);
            if (!is_volatile(kv.first))
                VF_CHECK(kv.second.bytes == it->second.bytes, "C14 (%s): get-all: %s = %s (%zu bytes), in-process %s (%zu bytes)", via, kv.first.c_str(), hex(kv.second.bytes.data(), kv.second.bytes.size(), 24).c_str(),
                         kv.second.bytes.size(), hex(it->second.bytes.data(), it->second.bytes.size(), 24).c_str(), it->second.bytes.size());
        }
        size_t want = std::min<size_t>(fitting, CTL_PROTO_MAX_ATTRS - 1);
        VF_CHECK(got.size() >= want, "C14 (%s): get-all returned %zu attributes; the socket has %zu that fit the protocol (limit %d)", via, got.size(), fitting, CTL_PROTO_MAX_ATTRS);
        return Outcome::pass();
    }

    Outcome read_replies(Case &c, Session &s, Ep &owner, const AttrSet &truth, const std::vector<std::string> &secrets)
    {
        struct ctl_proto_msg *m = (struct ctl_proto_msg *)malloc(sizeof(*m) + 16);
        Outcome o = Outcome::pass();
        for (int n = 0; n < 8 && o.ok; n++) {
            ssize_t rc = recv(s.fd, m, sizeof(*m) + 16, MSG_DONTWAIT);
            if (rc < 0) break; // nothing (yet)
            if (rc == 0) { c.log("session dropped by the owner"); close(s.fd); s = Session(); break; }
            o = check_secret(m, rc, secrets, "raw session");
            if (!o.ok) break;
            if (rc != (ssize_t)sizeof(*m)) { o = failf("C14: reply datagram of %zd bytes (protocol messages have %zu)", rc, sizeof(*m)); break; }
            // match with the oldest judged expectation, if the session never saw a malformed datagram
            bool tainted = false;
            for (auto &e : s.expect) if (e.empty()) tainted = true;
            std::string exp = s.expect.empty() ? "" : s.expect.front();
            if (!s.expect.empty()) s.expect.erase(s.expect.begin());
            if (s.outstanding > 0) s.outstanding--;
            if (tainted || exp.empty()) continue;
            if (exp == "*") {
                VF_CHECK_GOTO(m->type == ctl_proto_type_get_all_attr_cfm, o, "C14 (raw session): the reply to get-all carries message type %d (want get_all_attr_cfm = %d) - libxcmctl would report EPROTO", (int)m->type, (int)ctl_proto_type_get_all_attr_cfm);
                struct ctl_proto_get_all_attr_cfm *cfm = &m->get_all_attr_cfm;
                VF_CHECK_GOTO(cfm->attrs_len <= CTL_PROTO_MAX_ATTRS, o, "C14: get-all reply claims %zu attributes (maximum %d)", cfm->attrs_len, CTL_PROTO_MAX_ATTRS);
                AttrSet got;
                for (size_t i = 0; i < cfm->attrs_len && o.ok; i++) {
                    struct ctl_proto_attr *a = &cfm->attrs[i];
                    VF_CHECK_GOTO(a->value_len <= CTL_ATTR_VALUE_MAX, o, "C14: get-all reply: attribute #%zu claims a %zu-byte value (field holds %d)", i, a->value_len, CTL_ATTR_VALUE_MAX);
                    VF_CHECK_GOTO(memchr(a->name, 0, sizeof(a->name)) != nullptr, o, "C14: get-all reply: attribute #%zu has an unterminated name", i);
                    got[a->name] = AttrVal{(int)a->value_type, std::string((const char *)a->any_value, a->value_len)};
                }
                if (o.ok) o = judge_all(got, owner, "raw session");
            } else {
                bool cfm = m->type == ctl_proto_type_get_attr_cfm;
                VF_CHECK_GOTO(cfm || m->type == ctl_proto_type_get_attr_rej, o, "C14 (raw session): reply to get-attr %s has message type %d", exp.c_str(), (int)m->type);
                std::string bytes;
                if (cfm) { VF_CHECK_GOTO(m->get_attr_cfm.attr.value_len <= CTL_ATTR_VALUE_MAX, o, "C14: reply claims a %zu-byte value", m->get_attr_cfm.attr.value_len); bytes.assign((const char *)m->get_attr_cfm.attr.any_value, m->get_attr_cfm.attr.value_len); }
                o = judge_attr(exp, cfm, cfm ? 0 : m->get_attr_rej.rej_errno, cfm ? (int)m->get_attr_cfm.attr.value_type : 0, bytes, owner, truth, "raw session");
            }
        }
    out:
        free(m);
        return o;
    }

    Outcome run_xcmc(Case &c, XcmcJob &job, Ep &owner, Ep &peer, Ep &srv, const AttrSet &truth, const std::vector<std::string> &secrets, Session *ses)
    {
        // the owner serves at most two sessions: make room, as an operator would
        int open = 0;
        for (int i = 0; i < 4; i++) if (ses[i].fd >= 0) open++;
        for (int i = 0; i < 4 && open >= 2; i++) if (ses[i].fd >= 0) { close(ses[i].fd); ses[i] = Session(); open--; }
        pump(owner, peer, srv, 8);
        pthread_t th;
        pthread_create(&th, nullptr, XcmcJob::main, &job);
        double t0 = now_s();
        while (!job.done && now_s() - t0 < 20) { pump(owner, peer, srv, 2); usleep(100); }
        if (!job.done) { pthread_detach(th); return failf("C14: a libxcmctl session did not complete within 20 s while the application kept using its socket"); }
        pthread_join(th, nullptr);
        if (!job.open_err.empty()) { c.log("xcmc_open failed: %s", job.open_err.c_str()); return Outcome::pass(); }
        std::string desc;
        for (auto &r : job.res) desc += r.name + " ";
        c.log("libxcmctl session: %s", desc.c_str());
        for (auto &r : job.res) {
            if (r.name == "*") {
                if (r.rc < 0 && (r.err == EAGAIN || r.err == ETIMEDOUT)) continue; // the client library's own timeout
                VF_CHECK(r.rc == 0, "C14 (libxcmctl): xcmc_attr_get_all failed with %s (request #%zu of the session)", errname(r.err), (size_t)(&r - &job.res[0]) + 1);
                for (auto &kv : r.all) { Outcome o = check_secret(kv.second.bytes.data(), kv.second.bytes.size(), secrets, "xcmc_attr_get_all"); if (!o.ok) return o; }
                Outcome o = judge_all(r.all, owner, "libxcmctl");
                if (!o.ok) return o;
            } else {
                // timeouts of the client library (owner slow) are not the owner's fault
                if (r.rc < 0 && (r.err == EAGAIN || r.err == ETIMEDOUT)) continue;
                Outcome o = check_secret(r.bytes.data(), r.bytes.size(), secrets, "xcmc_attr_get");
                if (!o.ok) return o;
                o = judge_attr(r.name, r.rc >= 0, r.rc >= 0 ? 0 : r.err, r.type, r.bytes, owner, truth, "libxcmctl");
                if (!o.ok) return o;
            }
        }
        return Outcome::pass();
    }
};

} // namespace

namespace vf {
Harness *make_harness() { return new C14(); }
}
