// C13 - name resolution and multi-address connect follow the selected algorithm.
//
// The resolver is the scripted stub (stubs/ares_stub.c); every address of an
// answer has a role on one port P:  accept (a harness listener is bound there),
// refuse (nothing bound -> ECONNREFUSED) or silent (a listener whose accept
// queue is full -> SYNs are dropped).  The oracle is a reference model of the
// three algorithms over (answer list, role map); observations are the order of
// connect() calls seen by the shim, xcm_remote_addr / getpeername of the
// connection's descriptor, the errno finally reported, and elapsed time.
#include "vf.h"
#include "xpair.h"

#include <algorithm>
#include <arpa/inet.h>
#include <netinet/in.h>
#include <signal.h>
#include <sys/socket.h>
#include <sys/wait.h>

extern "C" {
#include "ares_stub.h"
}

using namespace vf;
using namespace xp;

namespace {

double now_s()
{
    struct timespec ts;
    clock_gettime(CLOCK_MONOTONIC, &ts);
    return ts.tv_sec + ts.tv_nsec / 1e9;
}

// R_UNBIND: an address of the other family than the configured xcm.local_addr - the source cannot be
// bound for it, the attempt fails before any connect()
enum Role { R_ACCEPT = 0, R_REFUSE = 1, R_SILENT = 2, R_UNBIND = 3 };
const char *role_name(int r) { return r == R_ACCEPT ? "accept" : r == R_REFUSE ? "refuse" : r == R_SILENT ? "silent" : "other family than xcm.local_addr"; }
const int E_UNBIND = -2; // stands for the errno of the failed bind: EAFNOSUPPORT (EINVAL on older kernels)

struct Listeners {
    int port = 0;
    std::vector<int> accept_fds, hole_fds, fillers;
    int v6_fd = -1;
    std::vector<int> v6_fillers;
    bool ok = false;

    static int mk(const char *ip, int port, int backlog, bool v6)
    {
        int fd = socket(v6 ? AF_INET6 : AF_INET, SOCK_STREAM | SOCK_NONBLOCK, 0);
        int one = 1;
        setsockopt(fd, SOL_SOCKET, SO_REUSEADDR, &one, sizeof(one));
        int rc;
        if (v6) {
            struct sockaddr_in6 a;
            memset(&a, 0, sizeof(a));
            a.sin6_family = AF_INET6;
            inet_pton(AF_INET6, ip, &a.sin6_addr);
            a.sin6_port = htons(port);
            setsockopt(fd, IPPROTO_IPV6, IPV6_V6ONLY, &one, sizeof(one));
            rc = bind(fd, (struct sockaddr *)&a, sizeof(a));
        } else {
            struct sockaddr_in a;
            memset(&a, 0, sizeof(a));
            a.sin_family = AF_INET;
            inet_pton(AF_INET, ip, &a.sin_addr);
            a.sin_port = htons(port);
            rc = bind(fd, (struct sockaddr *)&a, sizeof(a));
        }
        if (rc < 0 || listen(fd, backlog) < 0) { close(fd); return -1; }
        return fd;
    }
    static int local_port(int fd)
    {
        struct sockaddr_storage ss;
        socklen_t l = sizeof(ss);
        getsockname(fd, (struct sockaddr *)&ss, &l);
        return ntohs(((struct sockaddr_in *)&ss)->sin_port);
    }
    static void fill(const char *ip, int port, bool v6, std::vector<int> &out)
    {
        // occupy the (backlog 0) accept queue so that further SYNs are dropped
        for (int i = 0; i < 3; i++) {
            int fd = socket(v6 ? AF_INET6 : AF_INET, SOCK_STREAM | SOCK_NONBLOCK, 0);
            if (v6) {
                struct sockaddr_in6 a;
                memset(&a, 0, sizeof(a));
                a.sin6_family = AF_INET6;
                inet_pton(AF_INET6, ip, &a.sin6_addr);
                a.sin6_port = htons(port);
                connect(fd, (struct sockaddr *)&a, sizeof(a));
            } else {
                struct sockaddr_in a;
                memset(&a, 0, sizeof(a));
                a.sin_family = AF_INET;
                inet_pton(AF_INET, ip, &a.sin_addr);
                a.sin_port = htons(port);
                connect(fd, (struct sockaddr *)&a, sizeof(a));
            }
            out.push_back(fd);
        }
        usleep(2000);
    }
    // accept: 127.0.0.10-17   refuse: 127.0.1.10-17 (nothing bound)   silent: 127.0.2.10-15
    void init()
    {
        for (int attempt = 0; attempt < 50 && !ok; attempt++) {
            int first = mk("127.0.0.10", 0, 64, false);
            if (first < 0) continue;
            port = local_port(first);
            accept_fds.push_back(first);
            bool good = true;
            for (int i = 11; i <= 17 && good; i++) {
                char ip[32];
                snprintf(ip, sizeof(ip), "127.0.0.%d", i);
                int fd = mk(ip, port, 64, false);
                if (fd < 0) good = false; else accept_fds.push_back(fd);
            }
            for (int i = 10; i <= 15 && good; i++) {
                char ip[32];
                snprintf(ip, sizeof(ip), "127.0.2.%d", i);
                int fd = mk(ip, port, 0, false);
                if (fd < 0) good = false; else { hole_fds.push_back(fd); fill(ip, port, false, fillers); }
            }
            // the port must be free on ::1 and on the refusing addresses too
            int probe6 = good ? mk("::1", port, 1, true) : -1;
            if (probe6 < 0) good = false; else close(probe6);
            if (good) { int p = mk("127.0.1.10", port, 1, false); if (p < 0) good = false; else close(p); }
            if (!good) {
                for (int fd : accept_fds) close(fd);
                for (int fd : hole_fds) close(fd);
                for (int fd : fillers) close(fd);
                accept_fds.clear(); hole_fds.clear(); fillers.clear();
                continue;
            }
            ok = true;
        }
    }
    void set_v6(int role)
    {
        if (v6_fd >= 0) { close(v6_fd); v6_fd = -1; }
        for (int fd : v6_fillers) close(fd);
        v6_fillers.clear();
        if (role == R_ACCEPT) v6_fd = mk("::1", port, 64, true);
        else if (role == R_SILENT) { v6_fd = mk("::1", port, 0, true); fill("::1", port, true, v6_fillers); }
    }
    void drain()
    {
        for (int fd : accept_fds)
            for (;;) { int c = accept4(fd, nullptr, nullptr, SOCK_NONBLOCK); if (c < 0) break; close(c); }
        if (v6_fd >= 0)
            for (int k = 0; k < 8; k++) { int c = accept4(v6_fd, nullptr, nullptr, SOCK_NONBLOCK); if (c < 0) break; close(c); }
    }
};

Listeners g_l;

struct Addr { std::string ip; bool v6; int role; };

const char *ALGO[] = {"single", "sequential", "happy_eyeballs"};

class C13 : public Harness {
public:
    const char *property() override { return "C13"; }
    size_t cfg_len() override { return 16; }
    size_t step_len() override { return 2; }
    size_t max_steps() override { return 44; }
    size_t min_steps() override { return 1; }
    void setup() override
    {
        sh_override_user_timeout(600000);
        World::get();
        g_l.init();
    }

    Outcome run(const Plan &p, Case &c) override
    {
        VF_CHECK(g_l.ok, "setup: could not set up the listener pool");
        sh_reset();
        as_reset();
        g_l.drain();
        Dec cfg(p.cfg);
        static const int TPS[] = {TCP, BTCP, TLS, BTLS, UTLS_TLS, TCP, BTCP};
        int tp = TPS[cfg.ch(7)];
        int algo = (int)cfg.ch(3);
        int rmode = (int)cfg.ch(10); // 0-6 answer, 7 not found, 8 silent resolver, 9 xcm_server probe
        int rdelay = cfg.ch(3) == 0 ? 0 : (int)cfg.range(1, 30);
        double cto = 0.05 + 0.01 * (double)cfg.ch(20);
        int v6role = (int)cfg.ch(3);
        int use_local = (int)cfg.ch(4); // 0,1: none; 2: literal, port 0; 3: literal, fixed port
        bool blocking = cfg.ch(4) == 0 && (tp == TCP || tp == BTCP);
        uint32_t seed = cfg.raw();
        if (rmode == 9) return server_probe(c, tp, seed, cfg);
        // ---- the answer
        std::vector<Addr> L;
        int n_acc = 0, n_ref = 0, n_sil = 0;
        for (auto &st : p.steps) {
            Dec d(st);
            uint32_t k = d.ch(10);
            uint32_t x = d.raw();
            Addr a;
            a.v6 = false;
            if (k < 3) { a.role = R_ACCEPT; char b[32]; snprintf(b, sizeof(b), "127.0.0.%d", 10 + x % 8); a.ip = b; n_acc++; }
            else if (k < 6) { a.role = R_REFUSE; char b[32]; snprintf(b, sizeof(b), "127.0.1.%d", 10 + x % 8); a.ip = b; n_ref++; }
            else if (k < 8) { a.role = R_SILENT; char b[32]; snprintf(b, sizeof(b), "127.0.2.%d", 10 + x % 6); a.ip = b; n_sil++; }
            else { a.role = v6role; a.v6 = true; a.ip = "::1"; }
            // a silent attempt costs a whole tcp.connect_timeout: keep cases short
            if (a.role == R_SILENT && n_sil > 3 && !a.v6) { a.role = R_REFUSE; char b[32]; snprintf(b, sizeof(b), "127.0.1.%d", 10 + x % 8); a.ip = b; }
            L.push_back(a);
        }
        if (L.empty()) L.push_back({"127.0.0.10", false, R_ACCEPT});
        bool keep6 = cfg.ch(2) == 1;
        if (use_local >= 2) {
            // the local address (IPv4) can be the source of IPv4 attempts only: IPv6 addresses in the
            // answer are either left out, or stay and cannot be used whatever their listener does
            for (auto &a : L) if (a.v6) { if (keep6) a.role = R_UNBIND; else { a.v6 = false; a.ip = "127.0.1.11"; a.role = R_REFUSE; } }
            if (keep6) c.cls("local-addr:answer-has-other-family");
        }
        bool any_v6 = false;
        for (auto &a : L) any_v6 |= a.v6;
        g_l.set_v6(any_v6 ? v6role : R_REFUSE);
        std::string name = "multi" + std::to_string(seed % 100000) + ".verif";
        std::vector<const char *> ips;
        for (auto &a : L) ips.push_back(a.ip.c_str());
        as_script(name.c_str(), rmode == 7 ? AS_NOTFOUND : rmode == 8 ? AS_SILENT : AS_OK, rdelay, ips.data(), (int)ips.size());
        std::vector<Addr> M = L; // what XCM can use: the first 32
        if (M.size() > 32) { M.resize(32); c.cls("answer>32-addresses"); }
        double dns_to = rmode == 8 ? 0.08 + 0.01 * (seed % 10) : -1;
        // ---- expected outcome
        struct Exp { bool connect = false; std::vector<std::string> targets; std::vector<int> errs; double min_t = 0, max_t = 0; std::vector<std::string> log4, log6; } ex;
        auto role_err = [](int r) { return r == R_REFUSE ? ECONNREFUSED : r == R_UNBIND ? E_UNBIND : ETIMEDOUT; };
        auto push_err = [](std::vector<int> &v, int e) { if (e == E_UNBIND) { v.push_back(EAFNOSUPPORT); v.push_back(EINVAL); } else v.push_back(e); };
        if (rmode == 7 || rmode == 8) {
            ex.errs = {ENOENT};
            ex.min_t = rmode == 8 ? dns_to - 0.01 : 0;
            ex.max_t = (rmode == 8 ? dns_to : rdelay / 1000.0) * 3 + 2;
        } else if (algo == 0 || algo == 1) {
            size_t lim = algo == 0 ? 1 : M.size();
            double t = rdelay / 1000.0;
            int last = 0;
            for (size_t i = 0; i < lim; i++) {
                if (M[i].role == R_UNBIND) { last = E_UNBIND; continue; }
                (M[i].v6 ? ex.log6 : ex.log4).push_back(M[i].ip);
                if (M[i].role == R_ACCEPT) { ex.connect = true; ex.targets = {M[i].ip}; break; }
                if (M[i].role == R_SILENT) t += cto;
                last = role_err(M[i].role);
            }
            if (!ex.connect) push_err(ex.errs, last);
            ex.min_t = t - rdelay / 1000.0 - 0.012;
            ex.max_t = t * 3 + 2;
        } else {
            // happy eyeballs: one track per family, IPv4 delayed 200 ms when IPv6 addresses exist
            double t4 = any_v6 ? 0.2 : 0, t6 = 0;
            bool c4 = false, c6 = false;
            int e4 = 0, e6 = 0;
            bool has4 = false, has6 = false;
            std::string a4, a6;
            for (auto &a : M) {
                if (a.role == R_UNBIND) { has6 = true; e6 = E_UNBIND; continue; }
                if (a.v6) { has6 = true; if (c6) continue; ex.log6.push_back(a.ip); if (a.role == R_ACCEPT) { c6 = true; a6 = a.ip; } else { if (a.role == R_SILENT) t6 += cto; e6 = role_err(a.role); } }
                else { has4 = true; if (c4) continue; ex.log4.push_back(a.ip); if (a.role == R_ACCEPT) { c4 = true; a4 = a.ip; } else { if (a.role == R_SILENT) t4 += cto; e4 = role_err(a.role); } }
            }
            ex.connect = c4 || c6;
            if (c4) ex.targets.push_back(a4);
            if (c6) ex.targets.push_back(a6);
            if (!ex.connect) { if (has4) push_err(ex.errs, e4); if (has6) push_err(ex.errs, e6); }
            double tmin = ex.connect ? std::min(c4 ? t4 : 1e9, c6 ? t6 : 1e9) : std::max(has4 ? t4 : 0, has6 ? t6 : 0);
            ex.min_t = tmin - 0.012;
            ex.max_t = (std::max(t4, t6) + rdelay / 1000.0) * 3 + 2;
        }
        // ---- the call
        World &w = World::get();
        (void)w;
        std::string addr = World::client_proto(tp) + ":" + name + ":" + std::to_string(g_l.port);
        struct xcm_attr_map *am = xcm_attr_map_create();
        xcm_attr_map_add_bool(am, "xcm.blocking", blocking);
        if (is_bytestream(tp)) xcm_attr_map_add_str(am, "xcm.service", "bytestream");
        xcm_attr_map_add_str(am, "dns.algorithm", ALGO[algo]);
        xcm_attr_map_add_double(am, "tcp.connect_timeout", cto);
        if (dns_to > 0) xcm_attr_map_add_double(am, "dns.timeout", dns_to);
        std::string laddr;
        int lport = 0;
        if (use_local >= 2) {
            if (use_local == 3) {
                int s = socket(AF_INET, SOCK_STREAM, 0);
                struct sockaddr_in a;
                memset(&a, 0, sizeof(a));
                a.sin_family = AF_INET;
                inet_pton(AF_INET, "127.0.3.7", &a.sin_addr);
                bind(s, (struct sockaddr *)&a, sizeof(a));
                lport = Listeners::local_port(s);
                close(s);
            }
            laddr = World::client_proto(tp) + ":127.0.3.7:" + std::to_string(lport);
            xcm_attr_map_add_str(am, "xcm.local_addr", laddr.c_str());
            c.cls(use_local == 3 ? "local-addr:fixed-port" : "local-addr:port-0");
        }
        std::string desc;
        for (auto &a : M) desc += a.ip + "(" + role_name(a.role) + ") ";
        c.log("%s %s algorithm=%s resolver=%s delay=%dms connect_timeout=%.2f %s: %s", blocking ? "blocking" : "non-blocking", tp_name(tp), ALGO[algo],
              rmode == 7 ? "not-found" : rmode == 8 ? "silent" : "answers", rdelay, cto, laddr.c_str(), desc.c_str());
        c.cls(std::string("algo:") + ALGO[algo]);
        c.cls(std::string("tp:") + tp_name(tp));
        Ep S;
        S.tag = 2;
        S.blocking = blocking;
        double t0 = now_s();
        errno = 0;
        S.s = call(S, [&] { return xcm_connect_a(addr.c_str(), am); });
        int e = errno;
        xcm_attr_map_destroy(am);
        int result_errno = -1; // -1 undecided, 0 connected
        if (!S.s) result_errno = e;
        else {
            S.closed = false;
            if (blocking) result_errno = 0;
            else {
                S.fd = x_fd(S);
                double deadline = t0 + ex.max_t + 1;
                int calls = 0;
                while (now_s() < deadline) {
                    int rc = x_finish(S);
                    e = errno;
                    calls++;
                    if (rc == 0) { result_errno = 0; break; }
                    if (e != EAGAIN) { result_errno = e; break; }
                    const char *ra = call(S, [&] { return xcm_remote_addr(S.s); });
                    if (ra && uses_tls(tp)) { result_errno = 0; break; } // TCP level established; the TLS handshake has no peer
                    x_await(S, 0);
                    fd_readable(S.fd, 20);
                }
                if (calls > 1) c.cls("outcome-reported-by-later-call");
            }
        }
        double dt = now_s() - t0;
        // a fixed local port (picked a moment ago, then released) can be taken by another process before
        // XCM binds it: every IPv4 attempt then fails at bind(), before any connect()
        if (use_local == 3 && result_errno > 0 && sh_connect_log_len() == 0 && (result_errno == EADDRINUSE || result_errno == EAFNOSUPPORT || result_errno == EINVAL)) {
            c.cls("inconclusive:fixed-local-port-taken");
            x_close(S);
            g_l.drain();
            return Outcome::pass();
        }
        // ---- judge
        Outcome o = judge(c, S, tp, algo, ex.connect, ex.targets, ex.errs, ex.min_t, ex.max_t, ex.log4, ex.log6, result_errno, dt, laddr, lport, M);
        x_close(S);
        g_l.drain();
        bool nt = M.size() > 1 && (ex.log4.size() + ex.log6.size() > 1 || any_v6 || L.size() > 32 || n_sil > 0);
        if (rmode >= 7) nt = true;
        c.nt(nt);
        return o;
    }

    Outcome judge(Case &c, Ep &S, int tp, int algo, bool exp_connect, std::vector<std::string> &targets, std::vector<int> &errs, double min_t, double max_t,
                  std::vector<std::string> &log4, std::vector<std::string> &log6, int result, double dt, const std::string &laddr, int lport, std::vector<Addr> &M)
    {
        std::string got_log;
        std::vector<std::string> g4, g6;
        for (int i = 0; i < sh_connect_log_len(); i++) {
            std::string l = sh_connect_log(i);
            std::string ip = l.substr(0, l.find(' '));
            got_log += ip + " ";
            (ip.find(':') != std::string::npos ? g6 : g4).push_back(ip);
        }
        c.log("-> %s after %.0f ms; connect() targets: %s", result == 0 ? "connected" : result < 0 ? "undecided" : errname(result), dt * 1e3, got_log.c_str());
        VF_CHECK(result >= 0, "C13: no outcome within %.1f s (algorithm %s): neither established nor failed", max_t + 1, ALGO[algo]);
        if (exp_connect) {
            VF_CHECK(result == 0, "C13: %s: an address of the answer accepts connections, but the attempt failed with %s (connect() targets: %s)", ALGO[algo], errname(result), got_log.c_str());
            // whom are we connected to?
            int dfd = sh_data_fd(S.tag);
            struct sockaddr_storage ss;
            socklen_t sl = sizeof(ss);
            char ip[64] = "?";
            if (dfd >= 0 && getpeername(dfd, (struct sockaddr *)&ss, &sl) == 0) {
                if (ss.ss_family == AF_INET) inet_ntop(AF_INET, &((struct sockaddr_in *)&ss)->sin_addr, ip, sizeof(ip));
                else inet_ntop(AF_INET6, &((struct sockaddr_in6 *)&ss)->sin6_addr, ip, sizeof(ip));
            }
            bool okt = false;
            for (auto &t : targets) okt |= t == ip;
            VF_CHECK(okt, "C13: %s: connected to %s, expected %s%s", ALGO[algo], ip, targets[0].c_str(), targets.size() > 1 ? (" or " + targets[1]).c_str() : "");
            const char *ra = call(S, [&] { return xcm_remote_addr(S.s); });
            VF_CHECK(ra && strstr(ra, ip), "C13: xcm_remote_addr says %s but the connection's peer is %s", ra ? ra : "NULL", ip);
            if (!laddr.empty()) {
                sl = sizeof(ss);
                getsockname(dfd, (struct sockaddr *)&ss, &sl);
                char lip[64] = "?";
                inet_ntop(AF_INET, &((struct sockaddr_in *)&ss)->sin_addr, lip, sizeof(lip));
                VF_CHECK(!strcmp(lip, "127.0.3.7"), "C13: xcm.local_addr %s configured, but the established connection's source address is %s", laddr.c_str(), lip);
                if (lport) VF_CHECK(ntohs(((struct sockaddr_in *)&ss)->sin_port) == lport, "C13: source port %d, configured %d", ntohs(((struct sockaddr_in *)&ss)->sin_port), lport);
            }
        } else {
            bool oke = false;
            std::string want;
            for (int x : errs) { oke |= x == result; want += std::string(errname(x)) + " "; }
            VF_CHECK(result != 0, "C13: %s: no address of the answer accepts connections, yet the connection is reported established", ALGO[algo]);
            VF_CHECK(oke, "C13: %s: the attempt failed with %s, expected %s(connect() targets: %s)", ALGO[algo], errname(result), want.c_str(), got_log.c_str());
        }
        // order of attempts: per family, exactly the model's sequence (a prefix of it when the
        // other family's track won first)
        auto prefix_ok = [](std::vector<std::string> &got, std::vector<std::string> &want, bool exact) {
            if (got.size() > want.size()) return false;
            if (exact && got.size() != want.size()) return false;
            for (size_t i = 0; i < got.size(); i++) if (got[i] != want[i]) return false;
            return true;
        };
        std::string w4, w6;
        for (auto &s : log4) w4 += s + " ";
        for (auto &s : log6) w6 += s + " ";
        if (errs.empty() || errs[0] != ENOENT) {
            // happy eyeballs with success: the winning family's track made exactly the model's
            // attempts, the other one a prefix of its own; in every other situation both exact
            bool both_exact = algo != 2 || !exp_connect;
            bool won6 = false;
            if (!both_exact) {
                int dfd = sh_data_fd(S.tag);
                struct sockaddr_storage ss;
                socklen_t sl = sizeof(ss);
                won6 = dfd >= 0 && getpeername(dfd, (struct sockaddr *)&ss, &sl) == 0 && ss.ss_family == AF_INET6;
            }
            VF_CHECK(prefix_ok(g4, log4, both_exact || !won6), "C13: %s: IPv4 connect() attempts were [%s], the algorithm prescribes [%s]", ALGO[algo], got_log.c_str(), w4.c_str());
            VF_CHECK(prefix_ok(g6, log6, both_exact || won6), "C13: %s: IPv6 connect() attempts were [%s], the algorithm prescribes [%s]", ALGO[algo], got_log.c_str(), w6.c_str());
            if (algo != 2) {
                // single / sequential: the interleaved order is the list order as well
                std::vector<std::string> all;
                for (int i = 0; i < sh_connect_log_len(); i++) { std::string l = sh_connect_log(i); all.push_back(l.substr(0, l.find(' '))); }
                size_t k = 0;
                for (auto &a : M) { if (a.role == R_UNBIND) continue; if (k >= all.size()) break; VF_CHECK(all[k] == a.ip, "C13: %s: attempt #%zu went to %s, list order says %s", ALGO[algo], k, all[k].c_str(), a.ip.c_str()); k++; }
            }
        } else
            VF_CHECK(sh_connect_log_len() == 0, "C13: resolution failed, yet connect() was called (%s)", got_log.c_str());
        VF_CHECK(dt >= min_t, "C13: outcome after %.0f ms, but the silent attempts alone must take %.0f ms (tcp.connect_timeout / dns.timeout not honoured)", dt * 1e3, min_t * 1e3);
        VF_CHECK(dt <= max_t, "C13: outcome only after %.0f ms (bound %.0f ms)", dt * 1e3, max_t * 1e3);
        return Outcome::pass();
    }

    // xcm_server on a name: resolvable -> works; unresolvable -> NULL/ENOENT, promptly
    Outcome server_probe(Case &c, int tp, uint32_t seed, Dec &)
    {
        int kind = (int)(seed % 3); // 0 resolves, 1 not found, 2 not found after delay
        std::string name = "srv" + std::to_string(seed % 100000) + ".verif";
        const char *ips[] = {"127.0.0.77"};
        as_script(name.c_str(), kind == 0 ? AS_OK : AS_NOTFOUND, kind == 2 ? 20 : 0, ips, 1);
        std::string proto = tp == UTLS_TLS ? "tls" : World::client_proto(tp);
        std::string addr = proto + ":" + name + ":0";
        c.cls(std::string("xcm_server:") + (kind == 0 ? "resolvable" : "unresolvable"));
        c.log("xcm_server(%s), name %s", addr.c_str(), kind == 0 ? "resolves" : "does not exist");
        fflush(stdout);
        pid_t pid = fork();
        if (pid == 0) {
            // child: a hang here must not take the campaign down
            struct xcm_attr_map *a = xcm_attr_map_create();
            if (is_bytestream(tp)) xcm_attr_map_add_str(a, "xcm.service", "bytestream");
            errno = 0;
            struct xcm_socket *s = xcm_server_a(addr.c_str(), a);
            int e = errno;
            int code;
            if (kind == 0) code = s ? 0 : 10;
            else code = s ? 11 : (e == ENOENT ? 0 : 12);
            _exit(code);
        }
        double t0 = now_s();
        int status = 0;
        bool done = false;
        while (now_s() - t0 < 5.0) {
            if (waitpid(pid, &status, WNOHANG) == pid) { done = true; break; }
            usleep(2000);
        }
        if (!done) {
            kill(pid, SIGKILL);
            waitpid(pid, &status, 0);
            return failf("C13: xcm_server(%s) on %s name did not return within 5 s of the resolver's verdict", addr.c_str(), kind == 0 ? "a resolvable" : "an unresolvable");
        }
        c.nt(kind != 0);
        if (WIFSIGNALED(status)) return failf("C13: xcm_server(%s) died with signal %d", addr.c_str(), WTERMSIG(status));
        int code = WEXITSTATUS(status);
        VF_CHECK(code == 0, "C13: xcm_server(%s): %s", addr.c_str(),
                 code == 10 ? "failed although the name resolves" : code == 11 ? "succeeded although the name does not exist" : code == 12 ? "failed with an errno other than ENOENT" : "child failed");
        return Outcome::pass();
    }
};

} // namespace

namespace vf {
Harness *make_harness() { return new C13(); }
}
