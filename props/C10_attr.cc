// C10 — attribute reads and writes are memory-safe and type-checked.
// For sockets of every transport / kind / state: xcm_attr_get and all typed and
// formatted variants with every kind of capacity into exact-size heap buffers
// (ASan red zones are the guard), compared with a big-buffer reference read;
// xcm_attr_set with every type / length / value class, with a no-side-effect
// snapshot oracle for rejected sets; fuzzed names.
#include "vf.h"
#include "xpair.h"

#include <cmath>
#include <map>

using namespace vf;
using namespace xp;

namespace {

const char *UNIVERSE[] = {
    "xcm.blocking", "xcm.type", "xcm.transport", "xcm.service", "xcm.local_addr", "xcm.remote_addr",
    "xcm.max_msg_size", "xcm.to_app_msgs", "xcm.to_app_bytes", "xcm.from_app_msgs", "xcm.from_app_bytes",
    "xcm.to_lower_msgs", "xcm.to_lower_bytes", "xcm.from_lower_msgs", "xcm.from_lower_bytes",
    "dns.timeout", "dns.algorithm", "tcp.rtt", "tcp.total_retrans", "tcp.segs_in", "tcp.segs_out",
    "tcp.connect_timeout", "tcp.keepalive", "tcp.keepalive_time", "tcp.keepalive_interval",
    "tcp.keepalive_count", "tcp.user_timeout", "tls.cert_file", "tls.key_file", "tls.tc_file",
    "tls.crl_file", "tls.cert", "tls.key", "tls.tc", "tls.crl", "tls.client", "tls.auth",
    "tls.check_crl", "tls.check_time", "tls.verify_peer_name", "tls.peer_names",
    "tls.peer_subject_key_id", "tls.peer.cert.subject.cn", "tls.peer.cert.san.dns",
    "tls.peer.cert.san.emails", "tls.peer.cert.san.dirs", "ipv6.scope",
    // interior nodes and list elements
    "xcm", "tcp", "tls", "tls.peer", "tls.peer.cert", "tls.peer.cert.san", "tls.peer.cert.san.dns[0]",
    "tls.peer.cert.san.dns[1]", "tls.peer.cert.san.emails[0]", "tls.peer.cert.san.dirs[0]",
    "tls.peer.cert.san.dirs[0].cn", "tls.peer.cert.subject", "dns", "ipv6"};
const size_t NUNIVERSE = sizeof(UNIVERSE) / sizeof(UNIVERSE[0]);

const char *READ_ONLY[] = {"xcm.type", "xcm.transport", "xcm.remote_addr", "xcm.max_msg_size",
                           "xcm.to_app_msgs", "xcm.to_app_bytes", "xcm.from_app_msgs", "xcm.from_app_bytes",
                           "xcm.to_lower_msgs", "xcm.to_lower_bytes", "xcm.from_lower_msgs",
                           "xcm.from_lower_bytes", "tcp.rtt", "tcp.total_retrans", "tcp.segs_in",
                           "tcp.segs_out", "tls.peer_subject_key_id", "tls.peer.cert.subject.cn"};

bool is_volatile(const std::string &n)
{
    return n == "tcp.rtt" || n == "tcp.total_retrans" || n == "tcp.segs_in" || n == "tcp.segs_out";
}
bool in_universe(const std::string &n)
{
    for (size_t i = 0; i < NUNIVERSE; i++) if (n == UNIVERSE[i]) return true;
    if (n.compare(0, 17, "tls.peer.cert.san") == 0) return true;
    return false;
}
bool is_read_only(const std::string &n)
{
    for (auto r : READ_ONLY) if (n == r) return true;
    return n.compare(0, 13, "tls.peer.cert") == 0;
}

struct Ref { int rc; int err; int type; std::string bytes; };

Ref ref_get(Ep &e, const std::string &name)
{
    Ref r;
    static std::vector<char> big(1 << 17);
    enum xcm_attr_type t = (enum xcm_attr_type)0;
    errno = 0;
    r.rc = call(e, [&] { return xcm_attr_get(e.s, name.c_str(), &t, big.data(), big.size()); });
    r.err = errno;
    r.type = (int)t;
    if (r.rc >= 0) r.bytes.assign(big.data(), r.rc);
    return r;
}

typedef std::map<std::string, std::pair<int, std::string>> Snapshot;
void snap_cb(const char *name, enum xcm_attr_type type, void *value, size_t len, void *user)
{
    Snapshot *s = (Snapshot *)user;
    if (is_volatile(name)) return;
    (*s)[name] = {(int)type, std::string((const char *)value, len)};
}
Snapshot snapshot(Ep &e)
{
    Snapshot s;
    call(e, [&] { xcm_attr_get_all(e.s, snap_cb, &s); return 0; });
    return s;
}

std::string show(const std::string &n)
{
    std::string o;
    for (unsigned char ch : n.substr(0, 60)) { if (ch >= 0x20 && ch < 0x7f) o += (char)ch; else { char b[8]; snprintf(b, 8, "\\x%02x", ch); o += b; } }
    if (n.size() > 60) o += "...(" + std::to_string(n.size()) + ")";
    return o;
}

size_t type_size(int t) { return t == xcm_attr_type_bool ? sizeof(bool) : 8; }

struct Probe {
    Case &c;
    Ep &e;
    std::vector<std::string> names; // what xcm_attr_get_all reports in this state
    bool no_blocking = false;
    Probe(Case &cc, Ep &ee) : c(cc), e(ee) {}

    std::string gen_name(Dec &d)
    {
        uint32_t sel = d.ch(20);
        if (sel < 9 && !names.empty()) return names[d.raw() % names.size()];
        if (sel < 14) return UNIVERSE[d.raw() % NUNIVERSE];
        if (sel < 16) { // list element / sub key of a real name
            std::string base = !names.empty() && d.flag() ? names[d.raw() % names.size()] : UNIVERSE[d.raw() % NUNIVERSE];
            static const char *SUF[] = {"[0]", "[1]", "[99]", "[18446744073709551615]", ".cn", ".", "[", "[0", "[-1]", "..x", "[0][0]"};
            return base + d.pick(SUF);
        }
        if (sel < 17) { // many components
            int n = (int)d.range(60, 130);
            std::string s = "a";
            for (int i = 1; i < n; i++) s += d.flag() ? ".a" : "[0]";
            return s;
        }
        if (sel < 18) return std::string((size_t)d.range(200, 600), 'x');
        // raw bytes
        std::string s;
        size_t n = (size_t)d.range(0, 40);
        for (size_t i = 0; i < n; i++) { unsigned char ch = (unsigned char)d.raw(); if (!ch) ch = '.'; s += (char)ch; }
        return s;
    }

    // ---- xcm_attr_get with a chosen capacity, untyped and typed
    Outcome get_probe(Dec &d)
    {
        std::string name = gen_name(d);
        Ref ref = ref_get(e, name);
        char *hn = strdup(name.c_str());
        Outcome o = Outcome::pass();
        size_t L = ref.rc >= 0 ? (size_t)ref.rc : 8;
        size_t cap;
        switch (d.ch(8)) {
        case 0: cap = 0; break;
        case 1: cap = L ? L - 1 : 0; break;
        case 2: cap = L; break;
        case 3: cap = L + 1; break;
        case 4: cap = 1; break;
        case 5: cap = L + 2; break;
        default: cap = (size_t)d.range(0, (int64_t)L + 2);
        }
        int variant = d.ch(10);
        std::string sn = show(name);
        if (ref.rc >= 0 && cap < L) { c.nt(); c.cls("get:capacity<size"); }
        if (ref.rc < 0) c.cls(std::string("get:ref-") + errname(ref.err));
        if (variant < 4) { // xcm_attr_get / xcm_attr_getf
            char *buf = (char *)malloc(cap);
            memset(buf, 0xA5, cap);
            enum xcm_attr_type t = (enum xcm_attr_type)77;
            errno = 0;
            int rc = variant < 3 ? call(e, [&] { return xcm_attr_get(e.s, hn, &t, buf, cap); })
                                 : call(e, [&] { return xcm_attr_getf(e.s, &t, buf, cap, "%s", hn); });
            int err = errno;
            if (c.trace.size() < 4000) c.log("get('%s', cap %zu) -> %d %s (value size %d)", sn.c_str(), cap, rc, rc < 0 ? errname(err) : "", ref.rc);
            do {
                if (rc > (int)cap) { o = failf("xcm_attr_get('%s', capacity %zu) returned %d > capacity", sn.c_str(), cap, rc); break; }
                if (ref.rc < 0) {
                    if (rc >= 0) { o = failf("xcm_attr_get('%s') fails with %s into a big buffer but returns %d with capacity %zu", sn.c_str(), errname(ref.err), rc, cap); break; }
                    if (err != ref.err && !(err == EOVERFLOW)) { o = failf("xcm_attr_get('%s'): errno %s with capacity %zu, %s with a big buffer", sn.c_str(), errname(err), cap, errname(ref.err)); break; }
                } else if (cap >= L) {
                    if (rc != (int)L && !is_volatile(name)) { o = failf("xcm_attr_get('%s', capacity %zu) = %d %s, value size is %zu", sn.c_str(), cap, rc, rc < 0 ? errname(err) : "", L); break; }
                    if (rc >= 0 && (int)t != ref.type) { o = failf("xcm_attr_get('%s') type %d vs %d", sn.c_str(), (int)t, ref.type); break; }
                    if (rc >= 0 && !is_volatile(name) && memcmp(buf, ref.bytes.data(), L) != 0) { o = failf("xcm_attr_get('%s', capacity %zu) value differs from the big-buffer read", sn.c_str(), cap); break; }
                } else {
                    if (rc >= 0) { o = failf("xcm_attr_get('%s', capacity %zu) = %d although the value needs %zu bytes", sn.c_str(), cap, rc, L); break; }
                    if (err != EOVERFLOW) { o = failf("xcm_attr_get('%s', capacity %zu < size %zu): errno %s, want EOVERFLOW", sn.c_str(), cap, L, errname(err)); break; }
                }
                // bytes beyond the returned length keep the pattern
                size_t from = rc > 0 ? rc : 0;
                if (rc < 0) from = 0; // a failed get may not scribble either? (not required) -> only check beyond capacity via ASan
                if (rc >= 0)
                    for (size_t k = from; k < cap; k++) if ((unsigned char)buf[k] != 0xA5) { o = failf("xcm_attr_get('%s') returned %d but wrote at offset %zu", sn.c_str(), rc, k); break; }
            } while (0);
            free(buf);
        } else if (variant < 7) { // fixed-size typed getters into an object of exactly that size
            int want = variant == 4 ? xcm_attr_type_bool : variant == 5 ? xcm_attr_type_int64 : xcm_attr_type_double;
            size_t sz = type_size(want);
            void *obj = malloc(sz);
            memset(obj, 0xA5, sz);
            errno = 0;
            int rc;
            bool f = d.flag();
            if (want == xcm_attr_type_bool) rc = f ? call(e, [&] { return xcm_attr_getf_bool(e.s, (bool *)obj, "%s", hn); }) : call(e, [&] { return xcm_attr_get_bool(e.s, hn, (bool *)obj); });
            else if (want == xcm_attr_type_int64) rc = f ? call(e, [&] { return xcm_attr_getf_int64(e.s, (int64_t *)obj, "%s", hn); }) : call(e, [&] { return xcm_attr_get_int64(e.s, hn, (int64_t *)obj); });
            else rc = f ? call(e, [&] { return xcm_attr_getf_double(e.s, (double *)obj, "%s", hn); }) : call(e, [&] { return xcm_attr_get_double(e.s, hn, (double *)obj); });
            int err = errno;
            if (ref.rc >= 0 && ref.type != want) { c.nt(); c.cls("get:typed-getter-of-other-type"); }
            if (c.trace.size() < 4000) c.log("get_%s('%s') -> %d %s (actual type %d)", want == xcm_attr_type_bool ? "bool" : want == xcm_attr_type_int64 ? "int64" : "double", sn.c_str(), rc, rc < 0 ? errname(err) : "", ref.rc >= 0 ? ref.type : -1);
            if (ref.rc >= 0 && ref.type == want) {
                if (rc != (int)sz) o = failf("typed getter for '%s' returned %d, want %zu", sn.c_str(), rc, sz);
                else if (!is_volatile(name) && memcmp(obj, ref.bytes.data(), sz) != 0) o = failf("typed getter for '%s' value differs", sn.c_str());
            } else if (ref.rc >= 0) {
                if (rc >= 0) o = failf("typed getter of type %d succeeded on '%s' of type %d", want, sn.c_str(), ref.type);
                else if (err != ENOENT) o = failf("typed getter of another type on '%s': errno %s, want ENOENT", sn.c_str(), errname(err));
            } else if (rc >= 0)
                o = failf("typed getter succeeded on '%s' which a plain get rejects with %s", sn.c_str(), errname(ref.err));
            free(obj);
        } else if (variant < 9) { // str / bin getters with capacity
            bool str = variant == 7;
            int want = str ? xcm_attr_type_str : xcm_attr_type_bin;
            char *buf = (char *)malloc(cap);
            memset(buf, 0xA5, cap);
            errno = 0;
            bool f = d.flag();
            int rc = str ? (f ? call(e, [&] { return xcm_attr_getf_str(e.s, buf, cap, "%s", hn); }) : call(e, [&] { return xcm_attr_get_str(e.s, hn, buf, cap); }))
                         : (f ? call(e, [&] { return xcm_attr_getf_bin(e.s, buf, cap, "%s", hn); }) : call(e, [&] { return xcm_attr_get_bin(e.s, hn, buf, cap); }));
            int err = errno;
            if (rc > (int)cap) o = failf("xcm_attr_get_%s('%s', capacity %zu) returned %d", str ? "str" : "bin", sn.c_str(), cap, rc);
            else if (ref.rc >= 0 && ref.type == want && cap >= L) {
                if (rc != (int)L || memcmp(buf, ref.bytes.data(), L) != 0) o = failf("xcm_attr_get_%s('%s', capacity %zu) = %d, expected the %zu byte value", str ? "str" : "bin", sn.c_str(), cap, rc, L);
            } else if (ref.rc >= 0 && ref.type == want) {
                if (rc >= 0 || err != EOVERFLOW) o = failf("xcm_attr_get_%s('%s', capacity %zu < %zu): rc %d errno %s", str ? "str" : "bin", sn.c_str(), cap, L, rc, errname(err));
            } else if (ref.rc >= 0) {
                c.nt();
                if (rc >= 0) o = failf("xcm_attr_get_%s succeeded on '%s' of type %d", str ? "str" : "bin", sn.c_str(), ref.type);
                else if (err != ENOENT && !(err == EOVERFLOW && cap < L)) o = failf("xcm_attr_get_%s on '%s' of type %d: errno %s", str ? "str" : "bin", sn.c_str(), ref.type, errname(err));
            } else if (rc >= 0)
                o = failf("xcm_attr_get_%s succeeded on '%s' which a plain get rejects", str ? "str" : "bin", sn.c_str());
            free(buf);
        } else {
            errno = 0;
            int rc = call(e, [&] { return xcm_attr_get_list_len(e.s, hn); });
            if (rc < -1) o = failf("xcm_attr_get_list_len('%s') = %d", sn.c_str(), rc);
            if (rc >= 0) {
                // every element below the length resolves, the one at the length does not
                std::string el = name + "[" + std::to_string(rc) + "]";
                Ref r2 = ref_get(e, el);
                if (r2.rc >= 0) o = failf("list '%s' has length %d but element [%d] exists", sn.c_str(), rc, rc);
            }
        }
        free(hn);
        return o;
    }

    // ---- xcm_attr_set
    Outcome set_probe(Dec &d)
    {
        std::string name = gen_name(d);
        Ref ref = ref_get(e, name);
        static const int TYPES[] = {xcm_attr_type_bool, xcm_attr_type_int64, xcm_attr_type_str, xcm_attr_type_bin, xcm_attr_type_double};
        int type = (ref.rc >= 0 && d.ch(3) != 0) ? ref.type : d.pick(TYPES);
        // value
        std::string val;
        uint32_t vsel = d.ch(12);
        if (type == xcm_attr_type_bool) {
            bool b = vsel & 1;
            // switching a socket whose connection cannot complete (held in the
            // connecting phase by the shim) to blocking mode rightly blocks
            if (name == "xcm.blocking" && no_blocking) b = false;
            val.assign((char *)&b, 1);
        }
        else if (type == xcm_attr_type_int64) {
            static const int64_t I[] = {0, -1, 1, 3, 10, 127, 128, 200, 32767, 32768, 2147483648LL, INT64_MAX};
            int64_t x = I[vsel];
            val.assign((char *)&x, 8);
        } else if (type == xcm_attr_type_double) {
            static const double D[] = {0, -1, 0.5, 3, 1e9, NAN, 1e-9, 0.25, 2, 10, 100, -0.0};
            double x = D[vsel];
            val.assign((char *)&x, 8);
        } else {
            static const char *S[] = {"", "any", "messaging", "bytestream", "single", "sequential", "happy_eyeballs",
                                      "tcp:127.0.0.1:0", "foo", "a:b", "tls:127.0.0.1:1", "x"};
            val = S[vsel];
            if (type == xcm_attr_type_str || d.flag()) val += '\0';
        }
        size_t len = val.size();
        // wrong lengths
        bool bad_len = false;
        if (d.ch(4) == 0) {
            static const int LENS[] = {0, 1, 7, 8, 9, 4096};
            size_t nl = (size_t)d.pick(LENS);
            if (type == xcm_attr_type_str) {
                // strings stay NUL terminated within len (documented contract)
                if (nl >= 1) { val.assign(nl - 1, 's'); val += '\0'; len = nl; }
            } else { val.resize(nl, 'v'); len = nl; }
            bad_len = (type == xcm_attr_type_bool && len != 1) || ((type == xcm_attr_type_int64 || type == xcm_attr_type_double) && len != 8);
        }
        if (type == xcm_attr_type_str && len == 0) { val = std::string(1, '\0'); len = 1; }
        char *hv = (char *)malloc(len ? len : 1);
        memcpy(hv, val.data(), len);
        char *hn = strdup(name.c_str());
        bool was_blocking = e.blocking;
        Snapshot before = snapshot(e);
        errno = 0;
        int rc = call(e, [&] { return xcm_attr_set(e.s, hn, (enum xcm_attr_type)type, hv, len); });
        int err = errno;
        free(hv);
        free(hn);
        std::string sn = show(name);
        if (c.trace.size() < 4000) c.log("set('%s', type %d, len %zu) -> %d %s", sn.c_str(), type, len, rc, rc < 0 ? errname(err) : "");
        VF_CHECK(rc == 0 || rc == -1, "xcm_attr_set('%s') returned %d", sn.c_str(), rc);
        bool exists = ref.rc >= 0;
        bool known = in_universe(name);
        if (!exists && !known) {
            VF_CHECK(rc == -1, "xcm_attr_set accepted the unknown attribute '%s'", sn.c_str());
            VF_CHECK(err == ENOENT || err == EINVAL || (err == EACCES && name.empty()), "xcm_attr_set on unknown '%s': errno %s (want ENOENT, or EINVAL for a malformed name/length)", sn.c_str(), errname(err));
        }
        if (exists && type != ref.type) {
            VF_CHECK(rc == -1 && (err == EINVAL || err == EACCES), "xcm_attr_set('%s') with type %d (attribute has type %d): rc %d errno %s", sn.c_str(), type, ref.type, rc, errname(err));
        }
        if (exists && type == ref.type && bad_len) {
            VF_CHECK(rc == -1 && (err == EINVAL || (err == EACCES && is_read_only(name))), "xcm_attr_set('%s') with length %zu for a fixed-size type: rc %d errno %s", sn.c_str(), len, rc, errname(err));
        }
        if (exists && type == ref.type && !bad_len && is_read_only(name)) {
            VF_CHECK(rc == -1 && err == EACCES, "xcm_attr_set on read-only '%s': rc %d errno %s (want EACCES)", sn.c_str(), rc, errname(err));
        }
        if (rc == -1) {
            bool terminal_ok = name == "xcm.blocking" && (err == EPIPE || err == ECONNRESET || err == ETIMEDOUT || err == ECONNREFUSED || err == EPROTO);
            VF_CHECK(err == ENOENT || err == EACCES || err == EINVAL || err == ENAMETOOLONG || err == EOVERFLOW || err == EAGAIN || terminal_ok,
                     "xcm_attr_set('%s') failed with unexpected errno %s", sn.c_str(), errname(err));
            Snapshot after = snapshot(e);
            if (before != after) {
                std::string diff;
                for (auto &kv : after) { auto it = before.find(kv.first); if (it == before.end() || it->second != kv.second) { diff = kv.first; break; } }
                if (diff.empty()) for (auto &kv : before) if (!after.count(kv.first)) { diff = kv.first + " (vanished)"; break; }
                return failf("rejected xcm_attr_set('%s', type %d, len %zu) = -1/%s had a side effect: attribute '%s' changed", sn.c_str(), type, len, errname(err), diff.c_str());
            }
            if (exists) { c.nt(); c.cls(std::string("set:rejected-") + errname(err)); }
        } else {
            c.cls("set:accepted");
            if (name == "xcm.blocking") {
                bool now = call(e, [&] { return xcm_is_blocking(e.s); });
                e.blocking = now;
                if (now != was_blocking) { x_set_blocking(e, was_blocking); }
            }
        }
        return Outcome::pass();
    }
};

void names_cb(const char *name, enum xcm_attr_type, void *, size_t, void *user)
{
    ((std::vector<std::string> *)user)->push_back(name);
}

class C10 : public Harness {
public:
    const char *property() override { return "C10"; }
    size_t cfg_len() override { return 6; }
    size_t step_len() override { return 12; }
    size_t max_steps() override { return 60; }
    void setup() override { World::get(); }

    Outcome run(const Plan &p, Case &c) override
    {
        sh_reset();
        Dec cfg(p.cfg);
        int tp = cfg.ch(NTP);
        if (getenv("VF_TP")) tp = atoi(getenv("VF_TP"));
        int which = cfg.ch(3);  // 0 client conn, 1 accepted conn, 2 server
        int state = cfg.ch(4);  // 0,1 established; 2 peer closed and seen; 3 connecting (tcp based)
        Ep cli, acc, connecting, own_server;
        Ep *target = nullptr;
        World &w = World::get();
        std::string desc = std::string(tp_name(tp));
        if (state == 3 && is_tcp_based(tp) && which != 2) {
            // a connection held in the connecting phase by delaying the status probes
            std::string err;
            Server &sv = w.server(tp, false, err);
            VF_CHECK(sv.ok, "setup: %s", err.c_str());
            connecting.tag = 4;
            for (int i = 0; i < 3000; i++) sh_push(4, SH_CONN, SH_DELAY, 0);
            struct xcm_attr_map *a = xcm_attr_map_create();
            xcm_attr_map_add_bool(a, "xcm.blocking", false);
            if (is_bytestream(tp)) xcm_attr_map_add_str(a, "xcm.service", "bytestream");
            connecting.s = call(connecting, [&] { return xcm_connect_a(sv.connect_addr.c_str(), a); });
            xcm_attr_map_destroy(a);
            VF_CHECK(connecting.s != nullptr, "setup: connect: %s", errname(errno));
            connecting.closed = false;
            target = &connecting;
            desc += " connection in connecting state";
            c.cls("state:connecting");
        } else {
            PairOpts po;
            po.tp = tp;
            std::string err = make_pair(po, cli, acc);
            VF_CHECK(err.empty(), "setup: %s pair: %s", tp_name(tp), err.c_str());
            if (which == 2) {
                // a dedicated server socket: sets must not leak into later cases
                own_server.tag = 5;
                std::string a = World::server_proto(tp);
                if (tp == UX) a = "ux:verif-c10-" + std::to_string(getpid());
                else if (tp == UXF) a = "uxf:" + w.dir + "/c10.sock";
                else a += ":127.0.0.1:0";
                struct xcm_attr_map *m = xcm_attr_map_create();
                xcm_attr_map_add_bool(m, "xcm.blocking", false);
                if (is_bytestream(tp)) xcm_attr_map_add_str(m, "xcm.service", "bytestream");
                own_server.s = call(own_server, [&] { return xcm_server_a(a.c_str(), m); });
                xcm_attr_map_destroy(m);
                VF_CHECK(own_server.s != nullptr, "setup: server %s: %s", a.c_str(), errname(errno));
                own_server.closed = false;
                target = &own_server;
                desc += " server socket";
                c.cls("state:server");
            } else {
                target = which == 0 ? &cli : &acc;
                Ep *other = which == 0 ? &acc : &cli;
                desc += which == 0 ? " client connection" : " accepted connection";
                // some traffic so that counters are non-zero
                char m[10] = "hello";
                x_send(*other, m, 5);
                x_finish(*other);
                if (state == 2) {
                    x_close(*other);
                    char b[100];
                    for (int i = 0; i < 200; i++) {
                        int rc = x_receive(*target, b, sizeof(b));
                        if (rc == 0 || (rc < 0 && errno != EAGAIN)) break;
                        if (rc < 0) fd_readable(target->fd, 2);
                    }
                    desc += ", closed by peer";
                    c.cls("state:closed-by-peer");
                } else
                    c.cls("state:established");
            }
        }
        c.log("%s", desc.c_str());
        c.cls(std::string("tp:") + tp_name(tp));
        Probe pr(c, *target);
        pr.no_blocking = target == &connecting;
        call(*target, [&] { xcm_attr_get_all(target->s, names_cb, &pr.names); return 0; });
        count("attributes_listed", pr.names.size());
        Outcome o = Outcome::pass();
        for (auto &st : p.steps) {
            Dec d(st);
            o = d.ch(5) < 3 ? pr.get_probe(d) : pr.set_probe(d);
            count("probes");
            if (!o.ok) break;
        }
        if (!connecting.closed) x_close(connecting);
        if (!own_server.closed) x_close(own_server);
        if (!cli.closed) x_close(cli);
        if (!acc.closed) x_close(acc);
        if (!o.ok) o.msg = desc + ": " + o.msg;
        return o;
    }
};

} // namespace

namespace vf {
Harness *make_harness() { return new C10(); }
}
