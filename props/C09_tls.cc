// C09 - TLS never fails open.
//
// One case = one cell of the policy x credential matrix: policy attributes on
// the connecting socket, on the server socket and (optionally) overriding ones
// in xcm_accept_a; the credentials each side presents; the trust store and CRLs
// each side is given; by file or by value; tls, btls or utls (TLS leg).
// The oracle is evaluated on the generation metadata of the certificates
// (pki/), never by asking OpenSSL: a side that became usable must not have a
// peer whose chain is *definitely* disqualified under that side's effective
// policy; cells that are *definitely* valid must work (not fail-always).
#include "vf.h"
#include "xpair.h"

#include <algorithm>
#include <arpa/inet.h>
#include <netinet/in.h>
#include <openssl/err.h>
#include <openssl/ssl.h>
#include <sys/socket.h>
#include <sys/stat.h>

using namespace vf;
using namespace xp;

namespace {

enum CredKind { CK_VALID, CK_VIA_INT, CK_UNTRUSTED, CK_EXPIRED, CK_NOTYET, CK_REVOKED_LEAF, CK_REVOKED_INT, CK_EKU_SERVER, CK_EKU_CLIENT, CK_INT_EXPIRED, NCK };
const char *CKN[] = {"valid", "via-intermediate", "untrusted-root", "expired", "not-yet-valid", "revoked-leaf", "revoked-intermediate", "eku-serverAuth-only", "eku-clientAuth-only", "expired-intermediate"};
enum TrustKind { TK_A, TK_B, TK_AB, TK_INT_ONLY, NTK };
const char *TKN[] = {"{A}", "{B}", "{A,B}", "{intermediate}"};
enum CrlKind { CRL_COMPLETE, CRL_MISSING_INT, CRL_EXPIRED, CRL_ZERO_REVOCATIONS, NCRL };
const char *CRLN[] = {"complete", "missing-for-intermediate", "expired-crl", "complete-zero-revocations"};

struct Pki {
    pki::CertP A, B, I, Iexp;
    pki::CertP leaf[NCK];
    std::string name[NCK]; // DNS SAN of the leaf
    bool ok = false;
    void init()
    {
        pki::CertSpec s;
        s.cn = "c09-root-A"; s.is_ca = true;
        A = pki::make_cert(s, nullptr);
        s.cn = "c09-root-B";
        B = pki::make_cert(s, nullptr);
        s.cn = "c09-int-I";
        I = pki::make_cert(s, A.get());
        s.cn = "c09-int-expired"; s.not_before_off = -7200; s.not_after_off = -3600;
        Iexp = pki::make_cert(s, A.get());
        for (int k = 0; k < NCK; k++) {
            pki::CertSpec l;
            l.cn = std::string("c09-") + CKN[k];
            name[k] = std::string("host-") + CKN[k] + ".example.com";
            l.dns_sans = {name[k]};
            const pki::Cert *iss = A.get();
            if (k == CK_VIA_INT || k == CK_REVOKED_INT) iss = I.get();
            if (k == CK_INT_EXPIRED) iss = Iexp.get();
            if (k == CK_UNTRUSTED) iss = B.get();
            if (k == CK_EXPIRED) { l.not_before_off = -7200; l.not_after_off = -600; }
            if (k == CK_NOTYET) { l.not_before_off = 3600; l.not_after_off = 7200; }
            if (k == CK_EKU_SERVER) l.eku = pki::EKU_SERVER;
            if (k == CK_EKU_CLIENT) l.eku = pki::EKU_CLIENT;
            leaf[k] = pki::make_cert(l, iss);
        }
        ok = true;
    }
    const pki::Cert *intermediate_of(int k) const { return k == CK_VIA_INT || k == CK_REVOKED_INT ? I.get() : k == CK_INT_EXPIRED ? Iexp.get() : nullptr; }
    std::string bundle(int k) const
    {
        std::string b = leaf[k]->cert_pem;
        if (intermediate_of(k)) b += intermediate_of(k)->cert_pem;
        return b;
    }
};
Pki g_pki;

struct Policy {
    int auth = -1, check_time = -1, check_crl = -1, verify_name = -1; // -1 unset, 0 false, 1 true
    int names = 0; // 0 unset, 1 matching (among others), 2 non-matching, 3 given but empty
    int trust = TK_A;
    int crl = CRL_COMPLETE;
    int cred = CK_VALID;
    bool by_file = false;
};

struct Eff { bool auth, check_time, check_crl, verify_name; int names; };

Eff effective(const Policy &p) { return Eff{p.auth != 0, p.check_time != 0, p.check_crl == 1, p.verify_name == 1, p.names}; }
Eff effective_accept(const Policy &srv, const Policy &acc)
{
    Eff e = effective(srv);
    if (acc.auth >= 0) e.auth = acc.auth;
    if (acc.check_time >= 0) e.check_time = acc.check_time;
    if (acc.check_crl >= 0) e.check_crl = acc.check_crl;
    if (acc.verify_name >= 0) e.verify_name = acc.verify_name;
    if (acc.names) e.names = acc.names;
    return e;
}

// Facts about a presented credential, relative to the verifier's configuration
struct Verdict { bool disqualified = false, definitely_valid = true; std::string why; };

Verdict judge(const Eff &e, int trust, int crlkind, int peer_cred, bool peer_is_tls_server)
{
    Verdict v;
    if (!e.auth) return v; // nothing is verified
    const pki::Cert *inter = g_pki.intermediate_of(peer_cred);
    bool under_B = peer_cred == CK_UNTRUSTED;
    // trust: some certificate of the presented chain's path is in the store
    bool trusted;
    if (trust == TK_A) trusted = !under_B;
    else if (trust == TK_B) trusted = under_B;
    else if (trust == TK_AB) trusted = true;
    else trusted = inter == g_pki.I.get(); // only the intermediate I is trusted
    if (!trusted) { v.disqualified = true; v.why = "no certificate of the peer's chain is in the trust store"; }
    if (trust == TK_INT_ONLY && e.check_crl) v.definitely_valid = false; // partial chains are not accepted with CRL checking
    if (e.check_time) {
        if (peer_cred == CK_EXPIRED) { v.disqualified = true; v.why = "the peer's certificate has expired"; }
        if (peer_cred == CK_NOTYET) { v.disqualified = true; v.why = "the peer's certificate is not yet valid"; }
        if (peer_cred == CK_INT_EXPIRED) { v.disqualified = true; v.why = "the peer's intermediate CA certificate has expired"; }
    } else if (peer_cred == CK_EXPIRED || peer_cred == CK_NOTYET || peer_cred == CK_INT_EXPIRED)
        ; // allowed
    if (e.check_crl) {
        if (peer_cred == CK_REVOKED_LEAF && crlkind != CRL_ZERO_REVOCATIONS) { v.disqualified = true; v.why = "the peer's certificate is on the configured CRL"; }
        if (peer_cred == CK_REVOKED_INT && crlkind != CRL_ZERO_REVOCATIONS) { v.disqualified = true; v.why = "the peer's intermediate CA is on the configured CRL"; }
        if (crlkind == CRL_MISSING_INT && inter) v.definitely_valid = false;
        if (crlkind == CRL_EXPIRED) v.definitely_valid = false;
        if (under_B) v.definitely_valid = false; // no CRL of B is ever configured
    }
    if (e.verify_name && e.names == 2) { v.disqualified = true; v.why = "none of the expected names is in the peer's certificate"; }
    if (e.verify_name && e.names == 3) { v.disqualified = true; v.why = "name verification is on and the list of expected names is empty: no certificate can match"; }
    if (e.verify_name && e.names == 0) v.definitely_valid = false;
    if (peer_cred == CK_EKU_SERVER && !peer_is_tls_server) { v.disqualified = true; v.why = "the peer's certificate is for serverAuth only, the peer acts as TLS client"; }
    if (peer_cred == CK_EKU_CLIENT && peer_is_tls_server) { v.disqualified = true; v.why = "the peer's certificate is for clientAuth only, the peer acts as TLS server"; }
    if (v.disqualified) v.definitely_valid = false;
    return v;
}

std::string crl_pem(int crlkind)
{
    // revocations: the revoked leaf (issued by A) and the intermediate I (issued by A)
    std::vector<long> revA, revI;
    if (crlkind != CRL_ZERO_REVOCATIONS) { revA.push_back(g_pki.leaf[CK_REVOKED_LEAF]->serial); }
    std::string out;
    // NB: CK_REVOKED_INT revokes I itself; this is modelled by a *separate* CRL set chosen per case
    long next = crlkind == CRL_EXPIRED ? -600 : 86400;
    out += pki::make_crl(*g_pki.A, revA, -3600, next);
    if (crlkind != CRL_MISSING_INT) { out += pki::make_crl(*g_pki.I, revI, -3600, next); out += pki::make_crl(*g_pki.Iexp, revI, -3600, next); }
    return out;
}
std::string crl_pem_for(int crlkind, int peer_cred)
{
    if (peer_cred != CK_REVOKED_INT) return crl_pem(crlkind);
    std::vector<long> revA;
    if (crlkind != CRL_ZERO_REVOCATIONS) { revA.push_back(g_pki.leaf[CK_REVOKED_LEAF]->serial); revA.push_back(g_pki.I->serial); }
    long next = crlkind == CRL_EXPIRED ? -600 : 86400;
    std::string out = pki::make_crl(*g_pki.A, revA, -3600, next);
    if (crlkind != CRL_MISSING_INT) out += pki::make_crl(*g_pki.I, {}, -3600, next);
    return out;
}

std::string trust_pem(int t)
{
    switch (t) {
    case TK_A: return g_pki.A->cert_pem;
    case TK_B: return g_pki.B->cert_pem;
    case TK_AB: return g_pki.A->cert_pem + g_pki.B->cert_pem;
    default: return g_pki.I->cert_pem;
    }
}

int g_case;

// returns false if the combination is one XCM must refuse with EINVAL at creation
bool add_attrs(struct xcm_attr_map *m, const Policy &p, int peer_cred, bool full_creds, const std::string &dir, const char *who, std::string &desc, bool *invalid)
{
    auto tri = [&](const char *n, int v) { if (v >= 0) { xcm_attr_map_add_bool(m, n, v); desc += std::string(n) + "=" + (v ? "true " : "false "); } };
    tri("tls.auth", p.auth);
    tri("tls.check_time", p.check_time);
    tri("tls.check_crl", p.check_crl);
    tri("tls.verify_peer_name", p.verify_name);
    if (p.names == 3) { xcm_attr_map_add_str(m, "tls.peer_names", ""); desc += "tls.peer_names=\"\" "; }
    else if (p.names) {
        std::string names = p.names == 1 ? "first.other.example.org:" + g_pki.name[peer_cred] + ":last.other.example.org" : "first.other.example.org:nobody.example.net";
        xcm_attr_map_add_str(m, "tls.peer_names", names.c_str());
        desc += "tls.peer_names=" + std::string(p.names == 1 ? "(matching) " : "(non-matching) ");
    }
    if (!full_creds) {
        // accept-time override: material the override newly needs comes along (the server socket
        // had none to inherit)
        if (invalid && invalid[0] && p.auth == 1) { std::string pem = trust_pem(p.trust); xcm_attr_map_add_bin(m, "tls.tc", pem.data(), pem.size()); desc += "(+tls.tc) "; }
        if (invalid && invalid[1] && p.check_crl == 1) { std::string pem = crl_pem_for(p.crl, peer_cred); xcm_attr_map_add_bin(m, "tls.crl", pem.data(), pem.size()); desc += "(+tls.crl) "; }
        return true;
    }
    bool auth = p.auth != 0, crl = p.check_crl == 1;
    auto put = [&](const char *attr, const char *file_attr, const std::string &pem, const char *fname) {
        if (p.by_file) { std::string path = dir + "/" + who + "-" + fname; pki::write_file(path, pem); xcm_attr_map_add_str(m, file_attr, path.c_str()); }
        else xcm_attr_map_add_bin(m, attr, pem.data(), pem.size());
    };
    put("tls.cert", "tls.cert_file", g_pki.bundle(p.cred), "cert.pem");
    put("tls.key", "tls.key_file", g_pki.leaf[p.cred]->key_pem, "key.pem");
    if (auth) put("tls.tc", "tls.tc_file", trust_pem(p.trust), "tc.pem");
    if (crl) put("tls.crl", "tls.crl_file", crl_pem_for(p.crl, peer_cred), "crl.pem");
    desc += std::string("cred=") + CKN[p.cred] + (p.by_file ? "(files) " : "(values) ") + (auth ? std::string("trust=") + TKN[p.trust] + " " : "") + (crl ? std::string("crl=") + CRLN[p.crl] + " " : "");
    (void)invalid;
    return true;
}

// is_server: name verification without authentication is refused when a connection is set up
// (xcm_connect_a / xcm_accept_a), a server socket itself may carry it (judged at accept)
bool invalid_combo(const Eff &e, bool names_given, bool is_server)
{
    if (e.check_crl && !e.auth) return true;
    if (e.verify_name && !e.auth && !is_server) return true;
    if (names_given && !e.verify_name) return true;
    return false;
}

Policy gen_policy(Dec &d, bool full)
{
    Policy p;
    auto tri = [&](int pt, int pf) { uint32_t x = d.ch(100); return (int)x < pt ? 1 : (int)x < pt + pf ? 0 : -1; };
    p.auth = tri(15, 15);
    p.check_time = tri(15, 25);
    p.check_crl = tri(35, 5);
    p.verify_name = tri(30, 5);
    uint32_t n = d.ch(10);
    p.names = p.verify_name == 1 ? (n < 4 ? 1 : n < 7 ? 2 : n < 9 ? 3 : 0) : (n == 0 ? 1 : 0);
    if (full) {
        static const int CW[] = {CK_VALID, CK_VALID, CK_VALID, CK_VIA_INT, CK_VIA_INT, CK_UNTRUSTED, CK_EXPIRED, CK_NOTYET, CK_REVOKED_LEAF, CK_REVOKED_INT, CK_EKU_SERVER, CK_EKU_CLIENT, CK_INT_EXPIRED};
        p.cred = CW[d.ch(13)];
        static const int TW[] = {TK_A, TK_A, TK_A, TK_AB, TK_B, TK_INT_ONLY};
        p.trust = TW[d.ch(6)];
        static const int RW[] = {CRL_COMPLETE, CRL_COMPLETE, CRL_COMPLETE, CRL_MISSING_INT, CRL_EXPIRED, CRL_ZERO_REVOCATIONS};
        p.crl = RW[d.ch(6)];
        p.by_file = d.ch(3) == 0;
    } else { d.raw(); d.raw(); d.raw(); d.raw(); }
    return p;
}

class C09 : public Harness {
public:
    const char *property() override { return "C09"; }
    size_t cfg_len() override { return 40; }
    size_t step_len() override { return 1; }
    size_t max_steps() override { return 1; }
    void setup() override { World::get(); g_pki.init(); }


    // ---- a raw OpenSSL peer that presents no certificate (XCM peers always present one)
    Outcome raw_peer_without_cert(Case &c, Dec &cfg)
    {
        c.cls("raw-peer-without-certificate");
        bool xcm_connects = cfg.flag();          // XCM side: connecting socket with tls.client=false, or accepted socket
        int auth = (int)cfg.ch(3) == 0 ? 0 : 1;   // XCM side's tls.auth
        bool btls = cfg.flag();
        World &w = World::get();
        std::string proto = btls ? "btls" : "tls";
        Ep x, srv;
        x.tag = 2; srv.tag = 30;
        struct Guard { Ep &a, &b; ~Guard() { x_close(a); x_close(b); } } guard{x, srv};
        int raw = -1, lfd = -1;
        struct xcm_attr_map *m = xcm_attr_map_create();
        xcm_attr_map_add_bool(m, "xcm.blocking", false);
        if (btls) xcm_attr_map_add_str(m, "xcm.service", "bytestream");
        xcm_attr_map_add_bool(m, "tls.auth", auth);
        xcm_attr_map_add_bin(m, "tls.cert", g_pki.leaf[CK_VALID]->cert_pem.data(), g_pki.leaf[CK_VALID]->cert_pem.size());
        xcm_attr_map_add_bin(m, "tls.key", g_pki.leaf[CK_VALID]->key_pem.data(), g_pki.leaf[CK_VALID]->key_pem.size());
        if (auth) xcm_attr_map_add_bin(m, "tls.tc", g_pki.A->cert_pem.data(), g_pki.A->cert_pem.size());
        (void)w;
        if (xcm_connects) {
            xcm_attr_map_add_bool(m, "tls.client", false); // role reversal: the connecting side is the TLS server
            lfd = socket(AF_INET, SOCK_STREAM | SOCK_NONBLOCK, 0);
            struct sockaddr_in a;
            memset(&a, 0, sizeof(a));
            a.sin_family = AF_INET;
            a.sin_addr.s_addr = htonl(INADDR_LOOPBACK);
            bind(lfd, (struct sockaddr *)&a, sizeof(a));
            listen(lfd, 4);
            socklen_t l = sizeof(a);
            getsockname(lfd, (struct sockaddr *)&a, &l);
            std::string addr = proto + ":127.0.0.1:" + std::to_string(ntohs(a.sin_port));
            x.s = call(x, [&] { return xcm_connect_a(addr.c_str(), m); });
            int e = errno;
            xcm_attr_map_destroy(m);
            if (!x.s) { close(lfd); return failf("setup: xcm_connect_a(%s) with tls.client=false: %s", addr.c_str(), errname(e)); }
            x.closed = false;
            for (int i = 0; i < 2000 && raw < 0; i++) { raw = accept4(lfd, nullptr, nullptr, SOCK_NONBLOCK); if (raw < 0) { x_finish(x); usleep(200); } }
            close(lfd);
            VF_CHECK(raw >= 0, "setup: raw accept failed");
        } else {
            std::string addr = proto + ":127.0.0.1:0";
            srv.s = call(srv, [&] { return xcm_server_a(addr.c_str(), m); });
            int e = errno;
            xcm_attr_map_destroy(m);
            VF_CHECK(srv.s != nullptr, "setup: xcm_server_a: %s", errname(e));
            srv.closed = false;
            const char *la = call(srv, [&] { return xcm_local_addr(srv.s); });
            int port = atoi(strrchr(la, ':') + 1);
            raw = socket(AF_INET, SOCK_STREAM | SOCK_NONBLOCK, 0);
            struct sockaddr_in a;
            memset(&a, 0, sizeof(a));
            a.sin_family = AF_INET;
            a.sin_addr.s_addr = htonl(INADDR_LOOPBACK);
            a.sin_port = htons(port);
            connect(raw, (struct sockaddr *)&a, sizeof(a));
        }
        // the raw peer: a TLS client that trusts A and has no certificate of its own
        SSL_CTX *ctx = SSL_CTX_new(TLS_client_method());
        BIO *b = BIO_new_mem_buf(g_pki.A->cert_pem.data(), (int)g_pki.A->cert_pem.size());
        X509 *ca = PEM_read_bio_X509(b, nullptr, nullptr, nullptr);
        BIO_free(b);
        X509_STORE_add_cert(SSL_CTX_get_cert_store(ctx), ca);
        X509_free(ca);
        SSL_CTX_set_verify(ctx, SSL_VERIFY_PEER, nullptr);
        SSL *ssl = SSL_new(ctx);
        SSL_set_fd(ssl, raw);
        SSL_set_connect_state(ssl);
        bool peer_done = false, peer_failed = false, x_ready = false;
        int x_err = 0;
        bool x_got = false, peer_sent = false, peer_got = false;
        uint8_t rb[64];
        for (int i = 0; i < 3000; i++) {
            if (!xcm_connects && !x.s) {
                sh_enter(x.tag, 1);
                x.s = xcm_accept(srv.s);
                int e = errno;
                sh_leave();
                if (x.s) x.closed = false;
                else if (e != EAGAIN) x_err = e;
            }
            if (!peer_done && !peer_failed) {
                int rc = SSL_do_handshake(ssl);
                if (rc == 1) peer_done = true;
                else { int se = SSL_get_error(ssl, rc); if (se != SSL_ERROR_WANT_READ && se != SSL_ERROR_WANT_WRITE) peer_failed = true; }
            }
            // a well-formed XCM frame (4-byte length + payload) on tls, plain bytes on btls
            if (peer_done && !peer_sent) { static const char frame[] = "\0\0\0\x14" "peer-data-0123456789"; if (SSL_write(ssl, btls ? frame + 4 : frame, btls ? 20 : 24) > 0) peer_sent = true; }
            if (peer_done && !peer_got) { int n = SSL_read(ssl, rb, sizeof(rb)); if (n > 0) peer_got = true; }
            ERR_clear_error();
            if (x.s && !x_err) {
                if (!x_ready) { int rc = x_finish(x); if (rc == 0) x_ready = true; else if (errno != EAGAIN) x_err = errno; }
                int rc = x_receive(x, rb, sizeof(rb));
                if (rc > 0) x_got = true; else if (rc == 0) x_err = x_err ? x_err : EPIPE; else if (errno != EAGAIN) x_err = x_err ? x_err : errno;
                if (x_ready && !x_err) x_send(x, "hello", 5);
            }
            if (x_err || (x_ready && x_got) || peer_failed) { if (i > 50) break; }
            usleep(200);
        }
        SSL_free(ssl);
        SSL_CTX_free(ctx);
        close(raw);
        c.log("XCM %s socket as TLS server, tls.auth=%d, raw TLS client without certificate: xcm ready=%d error=%s got-data=%d; peer handshake %s", xcm_connects ? "connecting (tls.client=false)" : "accepted", auth, x_ready,
              x_err ? errname(x_err) : "-", x_got, peer_done ? "done" : peer_failed ? "failed" : "pending");
        if (auth) {
            VF_CHECK(!x_ready, "C09: FAIL-OPEN: tls.auth is on and the peer presented no certificate at all, yet xcm_finish succeeded (%s socket acting as TLS server)", xcm_connects ? "connecting" : "accepted");
            VF_CHECK(!x_got, "C09: FAIL-OPEN: tls.auth is on and the peer presented no certificate, yet its data was delivered to the application");
            VF_CHECK(!peer_got, "C09: FAIL-OPEN: application data was transmitted to a peer that presented no certificate");
            VF_CHECK(x_err == EPROTO || (!x.s && x_err), "C09: a peer without certificate is reported as %s (want EPROTO)", x_err ? errname(x_err) : "nothing");
        } else {
            VF_CHECK(x_ready && x_got, "C09: FAIL-ALWAYS: tls.auth is off, yet a peer without certificate cannot use the connection (ready %d, error %s)", x_ready, x_err ? errname(x_err) : "-");
        }
        c.nt(true);
        return Outcome::pass();
    }

    Outcome run(const Plan &p, Case &c) override
    {
        sh_reset();
        g_case++;
        Dec cfg(p.cfg);
        if (cfg.ch(12) == 0) return raw_peer_without_cert(c, cfg);
        static const int TPS[] = {TLS, BTLS, UTLS_TLS, TLS};
        int tp = TPS[cfg.ch(4)];
        bool bs = tp == BTLS;
        Policy pc = gen_policy(cfg, true), ps = gen_policy(cfg, true);
        bool use_acc = cfg.ch(3) == 0;
        Policy pa = use_acc ? gen_policy(cfg, false) : Policy();
        if (!use_acc) { pa.auth = pa.check_time = pa.check_crl = pa.verify_name = -1; pa.names = 0; }
        uint32_t bias = cfg.ch(4);
        if (bias == 0) {
            if (pc.names == 3) pc.names = 1;
            if (ps.names == 3) ps.names = 1;
            if (pa.names == 3) pa.names = 1;
            // steer a share of the cells towards the definitely-valid class (else it is rare)
            pc.cred = cfg.ch(2) ? CK_VALID : CK_VIA_INT; ps.cred = cfg.ch(2) ? CK_VALID : CK_VIA_INT;
            pc.trust = ps.trust = cfg.ch(2) ? TK_A : TK_AB;
            pc.crl = ps.crl = CRL_COMPLETE;
            if (pc.names == 2) pc.names = 1;
            if (ps.names == 2) ps.names = 1;
            if (pa.names == 2) pa.names = 1;
        }
        // a lenient socket made first from the same material and kept alive: 1 = an xcm_accept_a on the
        // same server socket overriding tls.check_time=false, 2 = a connect-side socket configured like the
        // judged client but with tls.check_time=false.  Policies are per socket: nothing of it may reach
        // the judged pair, although the sockets share cached TLS contexts.
        int pred = (int)cfg.ch(4);
        World &w = World::get();
        std::string dir = w.dir + "/c09-" + std::to_string(g_case % 8);
        mkdir(dir.c_str(), 0755);
        Eff ec = effective(pc), es_srv = effective(ps), ea = effective_accept(ps, pa);
        // ---- server socket
        Ep srv, cli, acc, pcli, pacc;
        srv.tag = 30; cli.tag = 2; acc.tag = 3; pcli.tag = 4; pacc.tag = 5;
        struct Guard { Ep &a, &b, &c, &d, &e; ~Guard() { x_close(a); x_close(b); x_close(d); x_close(e); x_close(c); } } guard{cli, acc, srv, pcli, pacc};
        std::string sdesc, cdesc, adesc;
        struct xcm_attr_map *sm = xcm_attr_map_create();
        xcm_attr_map_add_bool(sm, "xcm.blocking", false);
        if (bs) xcm_attr_map_add_str(sm, "xcm.service", "bytestream");
        add_attrs(sm, ps, pc.cred, true, dir, "srv", sdesc, nullptr);
        std::string saddr = std::string(tp == BTLS ? "btls" : tp == UTLS_TLS ? "tls" : "tls") + ":127.0.0.1:0";
        errno = 0;
        srv.s = call(srv, [&] { return xcm_server_a(saddr.c_str(), sm); });
        int e = errno;
        xcm_attr_map_destroy(sm);
        c.log("server: %s-> %s", sdesc.c_str(), srv.s ? "ok" : errname(e));
        bool srv_invalid = invalid_combo(es_srv, ps.names == 1 || ps.names == 2, true);
        // (a server socket with name verification but without names is accepted: names may still
        //  come with xcm_accept_a)
        c.cls(std::string("tp:") + tp_name(tp));
        if (srv_invalid) {
            if (srv.s) { srv.closed = false; }
            VF_CHECK(!srv.s, "C09: xcm_server_a accepted an inconsistent TLS policy (%s)", sdesc.c_str());
            VF_CHECK(e == EINVAL, "C09: inconsistent TLS policy (%s) refused with %s (want EINVAL)", sdesc.c_str(), errname(e));
            c.cls("invalid-combination-refused");
            c.nt(true);
            return Outcome::pass();
        }
        VF_CHECK(srv.s != nullptr, "C09: xcm_server_a with a consistent policy (%s) failed: %s", sdesc.c_str(), errname(e));
        srv.closed = false;
        const char *la = call(srv, [&] { return xcm_local_addr(srv.s); });
        std::string l = la ? la : "";
        std::string caddr = std::string(tp == BTLS ? "btls" : tp == UTLS_TLS ? "utls" : "tls") + l.substr(l.find(':'));
        // ---- the lenient predecessor
        if (pred == 1 || pred == 2) {
            Policy pp = pc;
            if (pred == 2) pp.check_time = 0;
            std::string pdesc;
            struct xcm_attr_map *pm = xcm_attr_map_create();
            xcm_attr_map_add_bool(pm, "xcm.blocking", false);
            if (bs) xcm_attr_map_add_str(pm, "xcm.service", "bytestream");
            add_attrs(pm, pp, ps.cred, true, dir, "cli", pdesc, nullptr);
            pcli.s = call(pcli, [&] { return xcm_connect_a(caddr.c_str(), pm); });
            xcm_attr_map_destroy(pm);
            if (pcli.s) {
                pcli.closed = false;
                struct xcm_attr_map *pam = nullptr;
                if (pred == 1) { pam = xcm_attr_map_create(); xcm_attr_map_add_bool(pam, "tls.check_time", false); }
                int perr = EAGAIN;
                for (int i = 0; i < 3000 && !pacc.s && perr == EAGAIN; i++) {
                    sh_enter(pacc.tag, 1);
                    errno = 0;
                    pacc.s = xcm_accept_a(srv.s, pam);
                    perr = errno;
                    sh_leave();
                    if (!pacc.s) { x_finish(pcli); usleep(300); }
                }
                if (pam) xcm_attr_map_destroy(pam);
                if (!pacc.s && perr == EAGAIN) { c.cls("predecessor-not-accepted"); return Outcome::pass(); } // it would be taken for the judged client
                if (pacc.s) pacc.closed = false;
                for (int i = 0; i < 300; i++) {
                    int r1 = x_finish(pcli), e1 = errno;
                    int r2 = pacc.s ? x_finish(pacc) : 0, e2 = errno;
                    if ((r1 == 0 || e1 != EAGAIN) && (r2 == 0 || e2 != EAGAIN)) break;
                    usleep(200);
                }
                c.cls(pred == 1 ? "lenient-accept-from-the-same-server-alive" : "lenient-client-with-the-same-material-alive");
                c.log("predecessor (%s) kept alive", pred == 1 ? "accepted from the same server socket with tls.check_time=false" : "client configured like the judged one but tls.check_time=false");
            }
        }
        // ---- client
        struct xcm_attr_map *cm = xcm_attr_map_create();
        xcm_attr_map_add_bool(cm, "xcm.blocking", false);
        if (bs) xcm_attr_map_add_str(cm, "xcm.service", "bytestream");
        add_attrs(cm, pc, ps.cred, true, dir, "cli", cdesc, nullptr);
        errno = 0;
        cli.s = call(cli, [&] { return xcm_connect_a(caddr.c_str(), cm); });
        e = errno;
        xcm_attr_map_destroy(cm);
        c.log("client: %s-> %s", cdesc.c_str(), cli.s ? "ok" : errname(e));
        // (name verification without names: the connect side would fall back to the host part of
        //  the address, which is an IP literal here -> nothing to verify against -> EINVAL)
        bool cli_invalid = invalid_combo(ec, pc.names == 1 || pc.names == 2, false) || (ec.verify_name && (ec.names == 0 || ec.names == 3));
        if (cli_invalid) {
            if (cli.s) cli.closed = false;
            VF_CHECK(!cli.s, "C09: xcm_connect_a accepted an inconsistent TLS policy (%s)", cdesc.c_str());
            VF_CHECK(e == EINVAL, "C09: inconsistent TLS policy (%s) refused with %s (want EINVAL)", cdesc.c_str(), errname(e));
            c.cls("invalid-combination-refused");
            c.nt(true);
            return Outcome::pass();
        }
        // verify_peer_name without names: the connect side falls back to the host of the address (an IP
        // literal here): unspecified by our metadata - treated as "not definitely valid"
        VF_CHECK(cli.s != nullptr || e == EPROTO || e == ECONNREFUSED, "C09: xcm_connect_a (%s) failed with %s", cdesc.c_str(), errname(e));
        if (!cli.s) { c.cls("client-creation-failed"); return Outcome::pass(); }
        cli.closed = false;
        // ---- accept (optionally overriding the server's policy)
        struct xcm_attr_map *am = use_acc ? xcm_attr_map_create() : nullptr;
        pa.trust = ps.trust;
        pa.crl = ps.crl;
        bool need[2] = {!es_srv.auth, !es_srv.check_crl};
        if (am) add_attrs(am, pa, pc.cred, false, dir, "acc", adesc, need);
        bool acc_invalid = invalid_combo(ea, pa.names == 1 || pa.names == 2, false) || (ea.verify_name && (ea.names == 0 || ea.names == 3));
        int acc_errno = 0;
        for (int i = 0; i < 3000 && !acc.s; i++) {
            sh_enter(acc.tag, 1);
            errno = 0;
            acc.s = xcm_accept_a(srv.s, am);
            acc_errno = errno;
            sh_leave();
            if (acc.s || acc_errno != EAGAIN) break;
            x_finish(cli);
            usleep(300);
        }
        if (am) xcm_attr_map_destroy(am);
        if (use_acc) c.log("accept overrides: %s-> %s", adesc.c_str(), acc.s ? "ok" : errname(acc_errno));
        bool srv_side_inherited = use_acc && (pa.auth >= 0 || pa.check_time >= 0 || pa.check_crl >= 0 || pa.verify_name >= 0 || pa.names);
        if (srv_side_inherited) c.cls("accept-time-override");
        if (acc_invalid) {
            if (acc.s) acc.closed = false;
            VF_CHECK(!acc.s, "C09: xcm_accept_a produced a socket for an inconsistent effective policy (server: %s accept: %s)", sdesc.c_str(), adesc.c_str());
            VF_CHECK(acc_errno == EINVAL, "C09: inconsistent effective policy at accept refused with %s (want EINVAL)", errname(acc_errno));
            c.cls("invalid-combination-refused");
            c.nt(true);
            return Outcome::pass();
        }
        if (acc.s) acc.closed = false;
        // ---- let both sides run
        Verdict vc = judge(ec, pc.trust, pc.crl, ps.cred, true);   // what the client thinks of the server's chain
        Verdict vs = judge(ea, ps.trust, ps.crl, pc.cred, false);  // what the server side thinks of the client's chain
        bool c_ready = false, s_ready = false;
        int c_err = 0, s_err = acc.s ? 0 : acc_errno;
        for (int i = 0; i < 3000; i++) {
            if (!c_ready && !c_err) { int rc = x_finish(cli); if (rc == 0) c_ready = true; else if (errno != EAGAIN) c_err = errno; }
            if (acc.s && !s_ready && !s_err) { int rc = x_finish(acc); if (rc == 0) s_ready = true; else if (errno != EAGAIN) s_err = errno; }
            if ((c_ready || c_err) && (s_ready || s_err)) break;
            usleep(200);
        }
        // data: each side sends one message; what arrives?
        uint8_t mc[32], ms[32], rb[64];
        memset(mc, 0xc1, sizeof(mc));
        memset(ms, 0x51, sizeof(ms));
        bool c_sent = false, s_sent = false, c_got = false, s_got = false;
        for (int i = 0; i < 600; i++) {
            if (!c_sent && !c_err) { int rc = x_send(cli, mc, sizeof(mc)); if (rc >= 0) c_sent = true; else if (errno != EAGAIN) c_err = c_err ? c_err : errno; }
            if (acc.s && !s_sent && !s_err) { int rc = x_send(acc, ms, sizeof(ms)); if (rc >= 0) s_sent = true; else if (errno != EAGAIN) s_err = s_err ? s_err : errno; }
            if (!c_got && !c_err) { int rc = x_receive(cli, rb, sizeof(rb)); if (rc > 0) { c_got = true; VF_CHECK(rc == 32 && rb[0] == 0x51, "C09: client received unexpected data"); } else if (rc == 0) c_err = c_err ? c_err : EPIPE; else if (errno != EAGAIN) c_err = c_err ? c_err : errno; }
            if (acc.s && !s_got && !s_err) { int rc = x_receive(acc, rb, sizeof(rb)); if (rc > 0) { s_got = true; VF_CHECK(rc == 32 && rb[0] == 0xc1, "C09: server side received unexpected data"); } else if (rc == 0) s_err = s_err ? s_err : EPIPE; else if (errno != EAGAIN) s_err = s_err ? s_err : errno; }
            if (!c_err) x_finish(cli);
            if (acc.s && !s_err) x_finish(acc);
            if ((c_got || c_err) && (s_got || s_err || !acc.s)) break;
            if (i > 20) usleep(300);
        }
        c.log("client: ready=%d error=%s sent=%d received=%d | server side: ready=%d error=%s sent=%d received=%d", c_ready, c_err ? errname(c_err) : "-", c_sent, c_got, s_ready, s_err ? errname(s_err) : "-", s_sent, s_got);
        c.log("metadata verdicts: client about server: %s%s; server about client: %s%s", vc.disqualified ? "DISQUALIFIED: " : vc.definitely_valid ? "definitely valid" : "not judged", vc.why.c_str(),
              vs.disqualified ? "DISQUALIFIED: " : vs.definitely_valid ? "definitely valid" : "not judged", vs.why.c_str());
        c.cls(std::string("server-cred:") + CKN[ps.cred]);
        c.cls(std::string("client-cred:") + CKN[pc.cred]);
        // ---- (1) fail closed
        if (vc.disqualified) {
            VF_CHECK(!c_ready, "C09: FAIL-OPEN: the client's xcm_finish succeeded although %s [client policy: %s; server presents: %s]", vc.why.c_str(), cdesc.c_str(), CKN[ps.cred]);
            VF_CHECK(!c_got, "C09: FAIL-OPEN: the client was handed application data although %s", vc.why.c_str());
            VF_CHECK(!s_got, "C09: FAIL-OPEN: the client's application data was transmitted and delivered although %s", vc.why.c_str());
            if (c_err) VF_CHECK(c_err == EPROTO || c_err == EPIPE || c_err == ECONNRESET, "C09: the client's policy is not met (%s) but it reports %s", vc.why.c_str(), errname(c_err));
            VF_CHECK(c_err != 0, "C09: the client's policy is not met (%s) but it never reported an error", vc.why.c_str());
            c.cls("client-policy-not-met");
        }
        if (vs.disqualified && acc.s) {
            VF_CHECK(!s_ready, "C09: FAIL-OPEN: the server side's xcm_finish succeeded although %s [server policy: %s accept: %s; client presents: %s]", vs.why.c_str(), sdesc.c_str(), adesc.c_str(), CKN[pc.cred]);
            VF_CHECK(!s_got, "C09: FAIL-OPEN: the server side was handed application data although %s", vs.why.c_str());
            VF_CHECK(!c_got, "C09: FAIL-OPEN: the server side's application data was transmitted and delivered although %s", vs.why.c_str());
            VF_CHECK(s_err != 0, "C09: the server side's policy is not met (%s) but it never reported an error", vs.why.c_str());
            VF_CHECK(s_err == EPROTO || s_err == EPIPE || s_err == ECONNRESET, "C09: the server side's policy is not met (%s) but it reports %s", vs.why.c_str(), errname(s_err));
            c.cls("server-policy-not-met");
        }
        if (vs.disqualified && !acc.s) { VF_CHECK(acc_errno == EPROTO || acc_errno == EAGAIN, "C09: xcm_accept_a failed with %s for a client whose chain is disqualified", errname(acc_errno)); c.cls("server-policy-not-met"); }
        // the side that detects the problem reports EPROTO
        if (vc.disqualified && !vs.disqualified && c_err) VF_CHECK(c_err == EPROTO, "C09: the client's policy is not met (%s): it reports %s, not EPROTO", vc.why.c_str(), errname(c_err));
        // ---- (4) not fail-always
        if (vc.definitely_valid && vs.definitely_valid && !(ec.verify_name && ec.names == 0)) {
            VF_CHECK(acc.s != nullptr, "C09: FAIL-ALWAYS: both chains satisfy both policies, yet xcm_accept_a failed with %s", errname(acc_errno));
            VF_CHECK(c_ready && s_ready && c_got && s_got, "C09: FAIL-ALWAYS: both chains satisfy both policies, yet the connection is not usable (client ready %d err %s got %d; server ready %d err %s got %d) [client: %s | server: %s | accept: %s]",
                     c_ready, c_err ? errname(c_err) : "-", c_got, s_ready, s_err ? errname(s_err) : "-", s_got, cdesc.c_str(), sdesc.c_str(), adesc.c_str());
            c.cls("definitely-valid-cell-works");
        }
        c.nt(vc.disqualified || vs.disqualified || srv_side_inherited);
        return Outcome::pass();
    }
};

} // namespace

namespace vf {
Harness *make_harness() { return new C09(); }
}
