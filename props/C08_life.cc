// C08 - no resource leaks, stray closes or aborts on any lifecycle path.
//
// A generated API program (servers, connects, accepts, traffic, attribute
// reads, closes, fork + xcm_cleanup) over all transports is run fault-free in
// a forked child to list the resource-creating system calls XCM makes
// (socket accept4 epoll_create1 eventfd timerfd_create connect bind listen
// fopen); it is then re-run, in a fresh child each time, once per
// (call index, errno): complete per program.  In every child the program is
// repeated; after each repetition the descriptor table must equal the start
// table, the heap must not grow from repetition to repetition, socket files
// and control files must be gone, and XCM must never have closed or
// epoll_ctl'ed a descriptor it did not create.  A child that dies of a signal
// (abort, sanitizer) is a violation.
#include "vf.h"
#include "xpair.h"
#include <poll.h>

#include <algorithm>
#include <cstdarg>
#include <dirent.h>
#include <arpa/inet.h>
#include <fcntl.h>
#include <netinet/in.h>
#include <signal.h>
#include <sys/stat.h>
#include <sys/wait.h>

extern "C" size_t __sanitizer_get_current_allocated_bytes(void) __attribute__((weak));

using namespace vf;
using namespace xp;

namespace {

double now_s()
{
    struct timespec ts;
    clock_gettime(CLOCK_MONOTONIC, &ts);
    return ts.tv_sec + ts.tv_nsec / 1e9;
}

enum OpK { O_SERVER, O_CONNECT, O_ACCEPT, O_SEND, O_RECV, O_CLOSE, O_ATTRS, O_FORK_CLEANUP, O_PENDING_CONNECT };
struct Op { int k; int tp; int a, b; uint32_t x; };
const char *TPN[] = {"ux", "uxf", "tcp", "tls", "utls", "btcp", "btls"};
const bool TP_BS[] = {false, false, false, false, false, true, true};

struct Slot {
    struct xcm_socket *s = nullptr;
    int tp = 0;
    bool server = false;
    std::string addr; // server: address clients use
    int peer = -1;
    bool established = false;
    double pending_deadline = 0; // pending connect: when its tcp.connect_timeout expires
    long seq = 0;                // order of creation (clients: order of connecting)
};

std::string g_dir, g_ctl;
int g_hole_port = 0;

// a listener whose accept queue is full: SYNs to it are dropped, a connect stays pending
void make_blackhole()
{
    int fd = socket(AF_INET, SOCK_STREAM | SOCK_NONBLOCK, 0);
    struct sockaddr_in a;
    memset(&a, 0, sizeof(a));
    a.sin_family = AF_INET;
    a.sin_addr.s_addr = htonl(0x7f000209); // 127.0.2.9
    bind(fd, (struct sockaddr *)&a, sizeof(a));
    listen(fd, 0);
    socklen_t l = sizeof(a);
    getsockname(fd, (struct sockaddr *)&a, &l);
    g_hole_port = ntohs(a.sin_port);
    for (int i = 0; i < 3; i++) {
        int c = socket(AF_INET, SOCK_STREAM | SOCK_NONBLOCK, 0);
        connect(c, (struct sockaddr *)&a, sizeof(a));
    }
    usleep(3000);
}

std::string fd_table()
{
    std::string out;
    DIR *d = opendir("/proc/self/fd");
    if (!d) return "?";
    int dfd = dirfd(d);
    std::vector<std::pair<int, std::string>> v;
    struct dirent *e;
    while ((e = readdir(d))) {
        if (e->d_name[0] == '.') continue;
        int fd = atoi(e->d_name);
        if (fd == dfd) continue;
        char p[64], t[256];
        snprintf(p, sizeof(p), "/proc/self/fd/%d", fd);
        ssize_t n = readlink(p, t, sizeof(t) - 1);
        t[n > 0 ? n : 0] = 0;
        // socket:[inode] identities change between repetitions: keep the kind only
        std::string kind = t;
        size_t br = kind.find('[');
        if (br != std::string::npos) kind = kind.substr(0, br);
        v.push_back({fd, kind});
    }
    closedir(d);
    std::sort(v.begin(), v.end());
    for (auto &x : v) out += std::to_string(x.first) + ":" + x.second + " ";
    return out;
}

std::string dir_listing(const std::string &dir)
{
    std::string out;
    DIR *d = opendir(dir.c_str());
    if (!d) return out;
    struct dirent *e;
    std::vector<std::string> v;
    while ((e = readdir(d))) if (e->d_name[0] != '.') v.push_back(e->d_name);
    closedir(d);
    std::sort(v.begin(), v.end());
    for (auto &x : v) out += x + " ";
    return out;
}

size_t heap() { return __sanitizer_get_current_allocated_bytes ? __sanitizer_get_current_allocated_bytes() : 0; }

struct Result {
    int code = 0; // 0 ok, 1 violation, 2 died
    std::string msg;
    int ncalls = 0;
    std::string names;
    bool fault_hit = false;
    bool unwound = false; // the fault hit after the same API call had already created a resource
    bool fault2_hit = false;
    std::string fault2_name;
    int sig = 0;
};

// ---- executed inside the forked child -------------------------------------
struct Runner {
    const std::vector<Op> &prog;
    std::string trace, viol;
    Slot slots[6];
    int rep = 0;
    int fault_at = 0, fault_errno = 0;
    int fault2_at = 0; bool fault2_skip_eventfd = false; // a second failing resource call (pairs)
    bool hit_seen = false, unwound = false;
    bool fault2_hit = false;
    std::string fault2_name;
    std::string uxf_foreign; // a socket file that belongs to somebody else
    Runner(const std::vector<Op> &p) : prog(p) {}

    void fail(const char *fmt, ...) __attribute__((format(printf, 2, 3)))
    {
        if (!viol.empty()) return;
        char buf[1024];
        va_list ap;
        va_start(ap, fmt);
        vsnprintf(buf, sizeof(buf), fmt, ap);
        va_end(ap);
        viol = buf;
    }
    void log(const char *fmt, ...) __attribute__((format(printf, 2, 3)))
    {
        if (rep != 0 || trace.size() > 6000) return;
        char buf[512];
        va_list ap;
        va_start(ap, fmt);
        vsnprintf(buf, sizeof(buf), fmt, ap);
        va_end(ap);
        trace += buf;
        trace += "\n";
    }

    template <class F> auto api(int tag, F &&f) -> decltype(f())
    {
        int calls0 = sh_resource_calls();
        bool hit0 = sh_resource_fault_hit();
        sh_enter(tag, 1);
        errno = 0;
        auto r = f();
        int e = errno;
        sh_leave();
        if (!hit0 && sh_resource_fault_hit()) {
            hit_seen = true;
            // how many resource calls of this API call preceded the failing one?
            if (fault_at - 1 > calls0) unwound = true;
        }
        errno = e;
        return r;
    }

    struct xcm_attr_map *attrs(int tp, bool conn)
    {
        struct xcm_attr_map *a = xcm_attr_map_create();
        xcm_attr_map_add_bool(a, "xcm.blocking", false);
        if (TP_BS[tp]) xcm_attr_map_add_str(a, "xcm.service", "bytestream");
        return a;
    }

    void do_op(const Op &op, int idx)
    {
        Slot &sl = slots[op.a % 6];
        switch (op.k) {
        case O_SERVER: {
            if (sl.s) return;
            std::string addr;
            if (op.tp == 0) addr = "ux:c08-" + std::to_string(getpid()) + "-" + std::to_string(op.a % 6);
            else if (op.tp == 1) addr = "uxf:" + g_dir + "/s" + std::to_string(op.a % 6) + ".sock";
            else addr = std::string(TPN[op.tp]) + ":127.0.0.1:0";
            struct xcm_attr_map *a = attrs(op.tp, false);
            struct xcm_socket *s = api(50 + op.a % 6, [&] { return xcm_server_a(addr.c_str(), a); });
            int e = errno;
            xcm_attr_map_destroy(a);
            log("#%d server(%s) -> %s", idx, addr.c_str(), s ? "ok" : errname(e));
            if (!s) { if (e == 0) fail("xcm_server_a(%s) returned NULL with errno 0", addr.c_str()); return; }
            sl.s = s; sl.tp = op.tp; sl.server = true; sl.peer = -1; sl.established = false;
            if (op.tp <= 1) sl.addr = addr;
            else {
                const char *la = xcm_local_addr(s);
                std::string l = la ? la : "";
                sl.addr = l;
            }
            break;
        }
        case O_CONNECT: {
            Slot &sv = slots[op.b % 6];
            if (sl.s || !sv.s || !sv.server) return;
            std::string addr = sv.addr;
            // utls server: connect with utls (UX leg) or with tls (TCP leg)
            if (sv.tp == 4 && (op.x & 1)) addr = "tls" + addr.substr(addr.find(':'));
            struct xcm_attr_map *a = attrs(sv.tp, true);
            struct xcm_socket *s = api(60 + op.a % 6, [&] { return xcm_connect_a(addr.c_str(), a); });
            int e = errno;
            xcm_attr_map_destroy(a);
            log("#%d connect(%s) -> %s", idx, addr.c_str(), s ? "ok" : errname(e));
            if (!s) { if (e == 0) fail("xcm_connect_a(%s) returned NULL with errno 0", addr.c_str()); return; }
            sl.s = s; sl.tp = sv.tp; sl.server = false; sl.peer = -1; sl.established = false;
            static long connect_seq = 0;
            sl.seq = ++connect_seq;
            sl.addr = std::to_string(op.b % 6); // remember which server
            break;
        }
        case O_ACCEPT: {
            Slot &sv = slots[op.b % 6];
            if (sl.s || !sv.s || !sv.server) return;
            struct xcm_socket *s = nullptr;
            int e = 0;
            // a blocking accept (transports without a handshake of their own: the client end is
            // driven by this same thread), only when the server reports a connection waiting
            bool blk = (op.x % 4 != 0) && (sv.tp == 0 || sv.tp == 1 || sv.tp == 2 || sv.tp == 5);
            if (blk) {
                api(84, [&] { return xcm_await(sv.s, XCM_SO_ACCEPTABLE); });
                struct pollfd pf = {xcm_fd(sv.s), POLLIN, 0};
                if (poll(&pf, 1, 20) <= 0) blk = false;
            }
            if (blk && api(84, [&] { return xcm_set_blocking(sv.s, true); }) == 0) {
                s = api(70 + op.a % 6, [&] { return xcm_accept(sv.s); });
                e = errno;
                log("#%d blocking accept(server slot %d) -> %s", idx, op.b % 6, s ? "ok" : errname(e));
                api(84, [&] { return xcm_set_blocking(sv.s, false); });
                if (s) api(84, [&] { return xcm_set_blocking(s, false); });
            }
            // an accept whose attribute map carries a TCP value XCM admits and the kernel refuses
            // (keepalive count above 127): the accept fails after the connection was taken from the queue
            if (!s && !blk && (op.x & 4) && sv.tp >= 2 && sv.tp != 4) { // (utls may hand out a UX connection: no TCP options there)
                struct xcm_attr_map *am = xcm_attr_map_create();
                xcm_attr_map_add_int64(am, "tcp.keepalive_count", 200);
                for (int i = 0; i < 60; i++) {
                    s = api(70 + op.a % 6, [&] { return xcm_accept_a(sv.s, am); });
                    e = errno;
                    if (s || e != EAGAIN) break;
                    for (auto &c : slots) if (c.s && !c.server) api(80, [&] { return xcm_finish(c.s); });
                    usleep(300);
                }
                xcm_attr_map_destroy(am);
                log("#%d accept(server slot %d) with tcp.keepalive_count=200 -> %s", idx, op.b % 6, s ? "ok" : errname(e));
                if (s) { fail("xcm_accept_a produced a connection although the kernel refuses tcp.keepalive_count=200"); api(90, [&] { return xcm_close(s); }); }
                else if (e == 0) fail("xcm_accept_a returned NULL with errno 0");
                return;
            }
            for (int i = 0; i < 60 && !s; i++) {
                s = api(70 + op.a % 6, [&] { return xcm_accept(sv.s); });
                e = errno;
                if (s || e != EAGAIN) break;
                for (auto &c : slots) if (c.s && !c.server) api(80, [&] { return xcm_finish(c.s); });
                usleep(300);
            }
            log("#%d accept(server slot %d) -> %s", idx, op.b % 6, s ? "ok" : errname(e));
            if (!s) { if (e == 0) fail("xcm_accept returned NULL with errno 0"); return; }
            sl.s = s; sl.tp = sv.tp; sl.server = false; sl.established = false;
            // pair with the client this connection belongs to: the one whose local address is the
            // accepted socket's remote address (TCP legs); failing that (UX legs have no client address)
            // the client of that server that connected first and has no peer yet
            {
                auto tail = [](const char *a) { std::string t = a ? a : ""; size_t c = t.find(':'); return c == std::string::npos ? t : t.substr(c + 1); };
                std::string ra = tail(xcm_remote_addr(s));
                int best = -1;
                for (int i = 0; i < 6; i++) {
                    if (!(slots[i].s && !slots[i].server && &slots[i] != &sl && slots[i].peer < 0 && slots[i].addr == std::to_string(op.b % 6))) continue;
                    std::string la = tail(xcm_local_addr(slots[i].s));
                    if (!ra.empty() && ra.find(':') != std::string::npos && la == ra) { best = i; break; }
                    if (best < 0 || slots[i].seq < slots[best].seq) best = i;
                }
                if (best >= 0) { slots[best].peer = (int)(&sl - slots); sl.peer = best; }
            }
            // drive both ends for a while (TLS handshakes)
            for (int i = 0; i < 200; i++) {
                int r1 = api(71, [&] { return xcm_finish(sl.s); });
                int r2 = sl.peer >= 0 ? api(72, [&] { return xcm_finish(slots[sl.peer].s); }) : 0;
                if (r1 == 0 && r2 == 0) { sl.established = true; if (sl.peer >= 0) slots[sl.peer].established = true; break; }
                if ((r1 < 0 && errno != EAGAIN)) break;
                usleep(200);
            }
            break;
        }
        case O_SEND: {
            if (!sl.s || sl.server) return;
            uint8_t m[64];
            memset(m, 0x42, sizeof(m));
            int rc = api(81, [&] { return xcm_send(sl.s, m, 1 + op.x % 60); });
            log("#%d send -> %d %s", idx, rc, rc < 0 ? errname(errno) : "");
            break;
        }
        case O_RECV: {
            if (!sl.s || sl.server) return;
            uint8_t m[256];
            int rc = api(82, [&] { return xcm_receive(sl.s, m, sizeof(m)); });
            log("#%d receive -> %d %s", idx, rc, rc < 0 ? errname(errno) : "");
            break;
        }
        case O_ATTRS: {
            if (!sl.s) return;
            api(83, [&] { xcm_attr_get_all(sl.s, [](const char *, enum xcm_attr_type, void *, size_t, void *) {}, nullptr); return 0; });
            break;
        }
        case O_CLOSE: {
            if (!sl.s) return;
            close_slot(sl);
            log("#%d close(slot %d)", idx, op.a % 6);
            break;
        }
        case O_PENDING_CONNECT: {
            if (sl.s) return;
            int tp = 2 + op.tp % 5; // tcp tls utls btcp btls
            std::string addr = std::string(TPN[tp]) + ":127.0.2.9:" + std::to_string(g_hole_port);
            struct xcm_attr_map *a = attrs(tp, true);
            xcm_attr_map_add_double(a, "tcp.connect_timeout", 0.15);
            struct xcm_socket *s = api(60 + op.a % 6, [&] { return xcm_connect_a(addr.c_str(), a); });
            int e = errno;
            xcm_attr_map_destroy(a);
            log("#%d connect(%s) to a silent listener, tcp.connect_timeout 0.15 -> %s", idx, addr.c_str(), s ? "pending" : errname(e));
            if (!s) return;
            sl.s = s; sl.tp = tp; sl.server = false; sl.peer = -1; sl.established = false;
            sl.pending_deadline = now_s() + 0.15;
            break;
        }
        case O_FORK_CLEANUP: fork_cleanup(idx); break;
        default: break;
        }
    }

    void close_slot(Slot &sl)
    {
        if (!sl.s) return;
        if (sl.peer >= 0) slots[sl.peer].peer = -1;
        api(90, [&] { return xcm_close(sl.s); });
        sl = Slot();
    }

    void fork_cleanup(int idx)
    {
        // the owner keeps everything; the child gives up its copies
        std::string files0 = dir_listing(g_dir) + "|" + dir_listing(g_ctl);
        pid_t pid = fork();
        if (pid == 0) {
            for (auto &sl : slots) if (sl.s) { sh_enter(95, 1); xcm_cleanup(sl.s); sh_leave(); }
            _exit(sh_foreign_ops() ? 3 : 0);
        }
        int st = 0;
        waitpid(pid, &st, 0);
        log("#%d fork + xcm_cleanup of every socket in the child -> child %s", idx, WIFEXITED(st) ? "exited" : "died");
        if (!WIFEXITED(st)) { fail("the forked child died with signal %d inside xcm_cleanup", WTERMSIG(st)); return; }
        if (WEXITSTATUS(st) == 3) fail("xcm_cleanup in the child touched a descriptor XCM did not create");
        std::string files1 = dir_listing(g_dir) + "|" + dir_listing(g_ctl);
        if (files0 != files1) fail("xcm_cleanup in a forked child removed/changed the owner's files: before [%s] after [%s]", files0.c_str(), files1.c_str());
        // the owner's established connections still work, and the peer saw no close
        for (int i = 0; i < 6; i++) {
            Slot &a = slots[i];
            if (!a.s || a.server || a.peer < 0 || !a.established) continue;
            Slot &b = slots[a.peer];
            uint8_t m[32], r[64];
            memset(m, 0x5c, sizeof(m));
            // drain what earlier ops left
            for (int k = 0; k < 50; k++) if (api(84, [&] { return xcm_receive(b.s, r, sizeof(r)); }) <= 0) break;
            int rc = api(85, [&] { return xcm_send(a.s, m, sizeof(m)); });
            if (rc < 0 && errno == EAGAIN) continue;
            if (rc < 0) { fail("after xcm_cleanup in a forked child the owner's xcm_send fails with %s", errname(errno)); return; }
            int got = -1;
            for (int k = 0; k < 2000 && got < 0; k++) {
                api(86, [&] { return xcm_finish(a.s); });
                got = api(87, [&] { return xcm_receive(b.s, r, sizeof(r)); });
                if (got < 0 && errno != EAGAIN) break;
                if (got < 0) usleep(100);
            }
            if (got == 0) { fail("after xcm_cleanup in a forked child the owner's peer sees the connection closed"); return; }
            if (got < 0) { fail("after xcm_cleanup in a forked child the owner's connection no longer delivers (receive: %s)", errname(errno)); return; }
        }
        // a connection attempt pending in the owner still times out on schedule (its timer is the owner's)
        for (auto &pc : slots) {
            if (!pc.s || pc.server || pc.pending_deadline == 0) continue;
            int fd = xcm_fd(pc.s);
            int rc = -1;
            errno = EAGAIN;
            double t0 = now_s();
            while (now_s() - t0 < 1.2) {
                api(88, [&] { return xcm_await(pc.s, 0); });
                struct pollfd q = {fd, POLLIN, 0};
                poll(&q, 1, 50);
                if (!(q.revents & POLLIN)) { errno = EAGAIN; continue; } // follow the protocol: act only when woken
                rc = api(89, [&] { return xcm_finish(pc.s); });
                if (rc == 0 || errno != EAGAIN) break;
            }
            if (rc < 0 && errno == EAGAIN) { fail("after xcm_cleanup in a forked child the owner's pending connection attempt (tcp.connect_timeout 0.15 s) is not woken/timed out within 1.2 s"); return; }
            if (rc < 0 && errno != ETIMEDOUT) { fail("the owner's pending connection attempt failed with %s (want ETIMEDOUT)", errname(errno)); return; }
            pc.pending_deadline = 0;
        }
        // servers still accept: their listening sockets and files are intact
        for (auto &sv : slots) {
            if (!sv.s || !sv.server || sv.tp != 1) continue;
            std::string path = sv.addr.substr(4);
            struct stat sb;
            if (stat(path.c_str(), &sb) < 0) fail("after xcm_cleanup in a forked child the owner's UXF socket file %s is gone", path.c_str());
        }
    }

    // One repetition of the whole program; everything that was created is closed at the end.
    void repetition()
    {
        if (fault_at > 0) sh_fail_resource_at(fault_at, fault_errno);
        if (fault2_at > 0) sh_fail_resource_at2(fault2_at, fault2_skip_eventfd);
        int i = 0;
        for (auto &op : prog) { do_op(op, i++); if (!viol.empty()) break; }
        if (sh_resource_fault2_hit()) { fault2_hit = true; fault2_name = sh_resource_fault2_name(); }
        sh_fail_resource_at(0, 0);
        sh_fail_resource_at2(0, 0);
        for (auto &sl : slots) close_slot(sl);
    }
};

Result run_child(const std::vector<Op> &prog, int fault_at, int fault_errno, int reps, std::string *trace_out, bool pending_variant, int fault2_at = 0, bool fault2_skip_eventfd = false)
{
    Result res;
    int pfd[2];
    if (pipe(pfd) < 0) { res.code = 1; res.msg = "pipe failed"; return res; }
    fflush(stdout);
    pid_t pid = fork();
    if (pid == 0) {
        close(pfd[0]);
        signal(SIGPIPE, SIG_IGN);
        sh_reset();
        Runner r(prog);
        r.fault_at = fault_at;
        r.fault_errno = fault_errno;
        r.fault2_at = fault2_at;
        r.fault2_skip_eventfd = fault2_skip_eventfd;
        // a socket file owned by somebody else must survive everything
        r.uxf_foreign = g_dir + "/foreign.sock";
        std::string start = fd_table();
        int lib0 = sh_lib_fds_open();
        std::string files_start = dir_listing(g_dir) + "|" + dir_listing(g_ctl);
        size_t h[8] = {0};
        int ncalls = 0;
        std::string names;
        std::string msg;
        for (int rep = 0; rep < reps && msg.empty(); rep++) {
            r.rep = rep;
            int c0 = sh_resource_calls();
            r.repetition();
            if (rep == 0) {
                ncalls = sh_resource_calls() - c0;
                for (int k = 0; k < ncalls && k < 400; k++) { names += sh_resource_call_name(c0 + k); names += ' '; }
            }
            if (!r.viol.empty()) { msg = r.viol; break; }
            std::string now = fd_table();
            if (now != start) { msg = "descriptor table differs after repetition " + std::to_string(rep + 1) + " (everything was closed): start [" + start + "] now [" + now + "]"; break; }
            std::string files = dir_listing(g_dir) + "|" + dir_listing(g_ctl);
            if (files != files_start) { msg = "files left behind after everything was closed: [" + files + "] (start: [" + files_start + "])"; break; }
            if (sh_foreign_ops()) { msg = std::string("XCM touched a descriptor it did not create: ") + sh_foreign_op_text(); break; }
            if (sh_lib_fds_open() != lib0) { msg = "descriptors created inside XCM are still open after everything was closed"; break; }
            h[rep] = heap();
        }
        if (msg.empty() && reps >= 5) {
            // steady state: consistent growth per repetition = leak
            long d1 = (long)h[2] - (long)h[1], d2 = (long)h[3] - (long)h[2], d3 = (long)h[4] - (long)h[3];
            if (d1 > 0 && d2 > 0 && d3 > 0 && d2 == d3)
                msg = "heap grows by " + std::to_string(d3) + " bytes per repetition although everything is closed (" + std::to_string(h[1]) + " " + std::to_string(h[2]) + " " + std::to_string(h[3]) + " " + std::to_string(h[4]) + ")";
        }
        std::string out = std::to_string(msg.empty() ? 0 : 1) + "\n" + std::to_string(ncalls) + "\n" + names + "\n" + (r.hit_seen ? "1" : "0") + (r.unwound ? "1" : "0") + (r.fault2_hit ? "1" : "0") + r.fault2_name + "\n" + msg + "\n" + r.trace;
        ssize_t wr = write(pfd[1], out.data(), out.size());
        (void)wr;
        _exit(0);
    }
    close(pfd[1]);
    std::string out;
    char buf[4096];
    double t0 = now_s();
    fcntl(pfd[0], F_SETFL, O_NONBLOCK);
    int status = 0;
    bool done = false;
    while (now_s() - t0 < 60) {
        ssize_t n = read(pfd[0], buf, sizeof(buf));
        if (n > 0) { out.append(buf, n); continue; }
        if (waitpid(pid, &status, WNOHANG) == pid) { done = true; while ((n = read(pfd[0], buf, sizeof(buf))) > 0) out.append(buf, n); break; }
        usleep(500);
    }
    close(pfd[0]);
    if (!done) { kill(pid, SIGKILL); waitpid(pid, &status, 0); res.code = 2; res.msg = "the program did not finish within 60 s (hang)"; return res; }
    if (WIFSIGNALED(status)) { res.code = 2; res.sig = WTERMSIG(status); res.msg = "the process was killed by signal " + std::to_string(res.sig) + (res.sig == SIGABRT ? " (abort/assertion)" : ""); }
    else if (WEXITSTATUS(status) != 0) { res.code = 2; res.msg = "the process exited with status " + std::to_string(WEXITSTATUS(status)) + " (sanitizer report)"; }
    // parse
    size_t p0 = 0;
    auto line = [&]() { size_t e = out.find('\n', p0); std::string l = out.substr(p0, e == std::string::npos ? std::string::npos : e - p0); p0 = e == std::string::npos ? out.size() : e + 1; return l; };
    if (!out.empty()) {
        std::string c0 = line();
        res.ncalls = atoi(line().c_str());
        res.names = line();
        std::string hu = line();
        res.fault_hit = hu.size() > 0 && hu[0] == '1';
        res.unwound = hu.size() > 1 && hu[1] == '1';
        res.fault2_hit = hu.size() > 2 && hu[2] == '1';
        res.fault2_name = hu.size() > 3 ? hu.substr(3) : "";
        std::string m = line();
        if (res.code == 0 && c0 == "1") { res.code = 1; res.msg = m; }
        if (trace_out) *trace_out = out.substr(p0);
    }
    return res;
}

const std::vector<int> &errnos_for(const std::string &call)
{
    static const std::vector<int> sock = {EMFILE, ENOBUFS}, acc = {EMFILE, ECONNABORTED, EAGAIN}, ep = {EMFILE, ENOMEM}, ev = {EMFILE}, tf = {EMFILE},
                                  con = {ENETUNREACH, ECONNREFUSED}, bnd = {EADDRINUSE, EACCES}, lis = {EADDRINUSE}, fo = {ENOENT, EMFILE}, other = {EMFILE};
    if (call == "socket") return sock;
    if (call == "accept4") return acc;
    if (call == "epoll_create1") return ep;
    if (call == "eventfd") return ev;
    if (call == "timerfd_create") return tf;
    if (call == "connect") return con;
    if (call == "bind") return bnd;
    if (call == "listen") return lis;
    if (call == "fopen") return fo;
    return other;
}

class C08 : public Harness {
public:
    const char *property() override { return "C08"; }
    size_t cfg_len() override { return 6; }
    size_t step_len() override { return 5; }
    size_t max_steps() override { return 15; }
    void setup() override
    {
        g_dir = tmpdir() + "/c08";
        g_ctl = tmpdir() + "/ctl";
        mkdir(g_dir.c_str(), 0755);
        mkdir(g_ctl.c_str(), 0755);
        World::get(); // certificates + XCM_TLS_CERT
        make_blackhole();
        setenv("XCM_CTL", g_ctl.c_str(), 1);
    }

    Outcome run(const Plan &p, Case &c) override
    {
        Dec cfg(p.cfg);
        uint32_t tsel = cfg.raw();
        bool with_fork = cfg.ch(3) == 0;
        bool ctl_on = cfg.ch(4) != 0;
        setenv("XCM_CTL", ctl_on ? g_ctl.c_str() : "/nonexistent-xcm-ctl", 1);
        // ---- the program: always starts with a server; later ops are generated
        std::vector<Op> prog;
        int tp0 = (int)(tsel % 7);
        prog.push_back({O_SERVER, tp0, 0, 0, 0});
        int nslots = 1;
        // Short plans are padded with steps derived from the configuration words: programs long enough
        // to get as far as accepted connections even at the small sizes the first cases of a run have
        bool pending_variant = cfg.ch(8) == 0;
        uint32_t pad = cfg.raw();
        std::vector<std::vector<uint32_t>> steps = p.steps;
        if (pad != 0) {
            size_t want = 5 + pad % 8;
            for (uint32_t i = 0; steps.size() < want; i++) {
                std::vector<uint32_t> st;
                for (uint32_t j = 0; j < 6; j++) st.push_back(mix32(pad + i * 7919u, tsel + j * 104729u));
                steps.push_back(st);
            }
        }
        for (auto &st : steps) {
            Dec d(st);
            uint32_t k = d.ch(100);
            Op op;
            op.a = (int)d.ch(6); op.b = (int)d.ch(6); op.x = d.raw(); op.tp = (int)d.ch(7);
            if (k < 14) { op.k = O_SERVER; op.a = nslots % 6; }
            else if (k < 38) { op.k = O_CONNECT; op.b = 0; if (d.flag()) op.b = op.b % 6; }
            else if (k < 58) { op.k = O_ACCEPT; if (d.flag()) op.b = 0; }
            else if (k < 68) op.k = O_SEND;
            else if (k < 76) op.k = O_RECV;
            else if (k < 82) op.k = O_ATTRS;
            else if (k < 94) op.k = O_CLOSE;
            else { if (!with_fork) continue; op.k = O_FORK_CLEANUP; }
            prog.push_back(op);
            nslots++;
        }
        if (pending_variant) {
            // a connection attempt pending across fork + cleanup
            Op pc; pc.k = O_PENDING_CONNECT; pc.a = 5; pc.b = 0; pc.x = 0; pc.tp = (int)(tsel >> 3);
            Op fc; fc.k = O_FORK_CLEANUP; fc.a = 0; fc.b = 0; fc.x = 0; fc.tp = 0;
            size_t at = prog.size() > 2 ? 2 : prog.size();
            prog.insert(prog.begin() + at, pc);
            prog.insert(prog.begin() + at + 1, fc);
            with_fork = true;
            c.cls("pending-connect-across-fork");
        }
        std::string ptxt;
        for (auto &op : prog) {
            static const char *KN[] = {"server", "connect", "accept", "send", "recv", "close", "attrs", "fork+cleanup", "pending-connect"};
            ptxt += std::string(KN[op.k]) + (op.k == O_SERVER ? std::string("(") + TPN[op.tp] + ")" : "") + "[" + std::to_string(op.a % 6) + (op.k == O_CONNECT || op.k == O_ACCEPT ? "<-" + std::to_string(op.b % 6) : "") + "] ";
        }
        c.log("program (ctl %s): %s", ctl_on ? "on" : "off", ptxt.c_str());
        c.cls(std::string("first-server:") + TPN[tp0]);
        if (with_fork) c.cls("fork+cleanup-in-program");
        // ---- fault-free baseline
        std::string trace;
        Result base = run_child(prog, 0, 0, 5, &trace, false);
        c.trace += trace;
        VF_CHECK(base.code == 0, "C08 (no fault injected): %s", base.msg.c_str());
        c.log("fault-free: %d resource-creating calls: %s", base.ncalls, base.names.c_str());
        if (trace.find("blocking accept(") != std::string::npos) c.cls("blocking-accept");
        if (trace.find("with tcp.keepalive_count=200 -> EINVAL") != std::string::npos) c.cls("accept-fails-after-taking-the-connection");
        count("programs");
        // ---- every resource-creating call x every plausible errno
        std::vector<std::string> names;
        {
            size_t p0 = 0;
            while (p0 < base.names.size()) { size_t e = base.names.find(' ', p0); if (e == std::string::npos) break; names.push_back(base.names.substr(p0, e - p0)); p0 = e + 1; }
        }
        bool nt = with_fork;
        long cap = getenv("VF_C08_CAP") ? atol(getenv("VF_C08_CAP")) : 1000;
        if (pending_variant && cap > 60) cap = 60; // each run waits for a connect timeout
        long runs = 0;
        for (size_t i = 0; i < names.size() && runs < cap; i++) {
            for (int e : errnos_for(names[i])) {
                if (names[i] == "eventfd" && excluded("eventfd-failure-aborts")) { count_exclusion("eventfd-failure-aborts"); continue; }
                std::string tr;
                Result r = run_child(prog, (int)i + 1, e, 3, &tr, false);
                runs++;
                count("fault_runs");
                if (r.fault_hit) count("faults_hit");
                if (r.unwound) { nt = true; count("faults_after_partial_setup"); c.cls(std::string("unwind:") + names[i]); }
                if (r.code != 0) {
                    c.trace += "== with " + names[i] + " (resource call #" + std::to_string(i + 1) + ") failing with " + errname(e) + ":\n" + tr;
                    return failf("C08: [%s #%zu = %s] %s", names[i].c_str(), i + 1, errname(e), r.msg.c_str());
                }
            }
        }
        // ---- pairs: a second resource-creating call fails in the same run (sampled per program;
        // the position of the second is relative to the run as it goes after the first fault)
        long npairs = getenv("VF_C08_PAIRS") ? atol(getenv("VF_C08_PAIRS")) : 24;
        bool skip_ev = excluded("eventfd-failure-aborts");
        for (long q = 0; q < npairs && !names.empty() && !pending_variant; q++) {
            uint32_t h = mix32((uint32_t)q * 2654435761u + 17, tsel ^ pad);
            size_t i = h % names.size();
            if (names[i] == "eventfd" && skip_ev) { count_exclusion("eventfd-failure-aborts"); continue; }
            const std::vector<int> &es = errnos_for(names[i]);
            int e1 = es[(h >> 8) % es.size()];
            int j = (int)i + 2 + (int)((h >> 12) % 12);
            std::string tr;
            Result r = run_child(prog, (int)i + 1, e1, 3, &tr, false, j, skip_ev);
            count("pair_runs");
            if (r.fault_hit && r.fault2_hit) { count("pairs_both_hit"); nt = true; c.cls("fault-pair:" + names[i] + "+" + r.fault2_name); }
            if (r.code != 0) {
                c.trace += "== with " + names[i] + " (resource call #" + std::to_string(i + 1) + ") failing with " + errname(e1) + " and resource call #" + std::to_string(j) + " of that run failing too:\n" + tr;
                return failf("C08: [%s #%zu = %s, then %s (resource call #%d of that run) failing too] %s", names[i].c_str(), i + 1, errname(e1), r.fault2_name.empty() ? "?" : r.fault2_name.c_str(), j, r.msg.c_str());
            }
        }
        c.nt(nt);
        return Outcome::pass();
    }
};

} // namespace

namespace vf {
Harness *make_harness() { return new C08(); }
}
