// C07 — hostile or corrupt wire input cannot harm or mislead the receiver.
// One end is real XCM (tcp, btcp, tls, btls; accept side or connect side), the
// other a raw kernel socket driven by the harness (plus, for TLS, an in-harness
// OpenSSL endpoint over memory BIOs whose wire bytes the harness can mutate).
// Oracle: reference frame decoder over the bytes actually written; EPROTO
// stickiness; allocation bound; ASan/UBSan.
#include "vf.h"
#include "xpair.h"

#include <arpa/inet.h>
#include <fcntl.h>
#include <netinet/in.h>
#include <netinet/tcp.h>
#include <openssl/err.h>
#include <openssl/ssl.h>
#include <sys/socket.h>

extern "C" size_t __sanitizer_get_current_allocated_bytes(void) __attribute__((weak));

using namespace vf;
using namespace xp;

namespace {

size_t allocated() { return __sanitizer_get_current_allocated_bytes ? __sanitizer_get_current_allocated_bytes() : 0; }

struct Decoded {
    std::vector<std::pair<size_t, size_t>> msgs; // (payload offset, len)
    bool malformed = false;                      // an illegal header follows the messages
    size_t consumed = 0;
    bool incomplete = false;
};

Decoded decode(const std::string &w)
{
    Decoded d;
    size_t i = 0;
    while (i + 4 <= w.size()) {
        uint32_t L = ((uint8_t)w[i] << 24) | ((uint8_t)w[i + 1] << 16) | ((uint8_t)w[i + 2] << 8) | (uint8_t)w[i + 3];
        if (L == 0 || L > 65535) { d.malformed = true; d.consumed = i; return d; }
        if (i + 4 + L > w.size()) { d.incomplete = true; d.consumed = i; return d; }
        d.msgs.push_back({i + 4, L});
        i += 4 + L;
    }
    d.incomplete = i < w.size();
    d.consumed = i;
    return d;
}

// ---- in-harness TLS peer over memory BIOs
struct TlsPeer {
    SSL_CTX *ctx = nullptr;
    SSL *ssl = nullptr;
    BIO *rbio = nullptr, *wbio = nullptr;
    bool handshake_done = false;
    bool failed = false;
    ~TlsPeer() { reset(); if (ctx) SSL_CTX_free(ctx); }
    void reset()
    {
        if (ssl) SSL_free(ssl); // frees the BIOs too
        ssl = nullptr;
        handshake_done = failed = false;
    }
    void init_ctx(const std::string &dir)
    {
        if (ctx) return;
        ctx = SSL_CTX_new(TLS_method());
        SSL_CTX_use_certificate_chain_file(ctx, (dir + "/cert.pem").c_str());
        SSL_CTX_use_PrivateKey_file(ctx, (dir + "/key.pem").c_str(), SSL_FILETYPE_PEM);
        SSL_CTX_load_verify_locations(ctx, (dir + "/tc.pem").c_str(), nullptr);
        SSL_CTX_set_verify(ctx, SSL_VERIFY_PEER | SSL_VERIFY_FAIL_IF_NO_PEER_CERT, nullptr);
        SSL_CTX_set_min_proto_version(ctx, TLS1_2_VERSION);
    }
    void start(bool server)
    {
        reset();
        ssl = SSL_new(ctx);
        rbio = BIO_new(BIO_s_mem());
        wbio = BIO_new(BIO_s_mem());
        SSL_set_bio(ssl, rbio, wbio);
        if (server) SSL_set_accept_state(ssl); else SSL_set_connect_state(ssl);
    }
    void step()
    {
        if (handshake_done || failed) return;
        int rc = SSL_do_handshake(ssl);
        if (rc == 1) handshake_done = true;
        else {
            int e = SSL_get_error(ssl, rc);
            if (e != SSL_ERROR_WANT_READ && e != SSL_ERROR_WANT_WRITE) failed = true;
        }
        ERR_clear_error();
    }
    std::string take_out()
    {
        std::string o;
        char buf[4096];
        int n;
        while ((n = BIO_read(wbio, buf, sizeof(buf))) > 0) o.append(buf, n);
        return o;
    }
    void feed(const char *p, size_t n) { BIO_write(rbio, p, (int)n); }
};

TlsPeer g_tls;
int g_listen_fd = -1;
int g_listen_port = 0;

int raw_listener()
{
    if (g_listen_fd >= 0) return g_listen_fd;
    g_listen_fd = socket(AF_INET, SOCK_STREAM | SOCK_NONBLOCK, 0);
    int one = 1;
    setsockopt(g_listen_fd, SOL_SOCKET, SO_REUSEADDR, &one, sizeof(one));
    struct sockaddr_in a;
    memset(&a, 0, sizeof(a));
    a.sin_family = AF_INET;
    a.sin_addr.s_addr = htonl(INADDR_LOOPBACK);
    bind(g_listen_fd, (struct sockaddr *)&a, sizeof(a));
    listen(g_listen_fd, 64);
    socklen_t l = sizeof(a);
    getsockname(g_listen_fd, (struct sockaddr *)&a, &l);
    g_listen_port = ntohs(a.sin_port);
    return g_listen_fd;
}

void write_all(int fd, const char *p, size_t n)
{
    size_t off = 0;
    int spins = 0;
    while (off < n && spins < 20000) {
        ssize_t rc = send(fd, p + off, n - off, MSG_NOSIGNAL | MSG_DONTWAIT);
        if (rc > 0) off += rc;
        else if (rc < 0 && errno != EAGAIN) return;
        else { spins++; usleep(50); }
    }
}

struct Run {
    Case &c;
    int tp;
    bool bs, tls;
    bool xcm_accept_side;
    Ep x;          // the XCM endpoint under test
    int raw = -1;  // the hostile peer's socket
    std::string pending; // plaintext the peer still has to write
    std::string written; // plaintext written so far (what XCM may have seen)
    size_t delivered = 0;   // messages (or bytes) XCM handed to the application
    bool eproto_seen = false, closed_seen = false, peer_fin = false, peer_rst = false;
    bool tls_garbage = false;    // TLS: bytes on the wire are not a genuine peer's
    bool usable_seen = false;    // finish()==0 observed
    bool peer_is_server = false;
    bool tls_post_corrupt = false; // a record after the handshake was corrupted
    size_t base_alloc = 0;
    size_t raw_wire_bytes = 0;
    Run(Case &cc) : c(cc) {}

    // write `n` plaintext bytes from pending (through the TLS peer if any)
    void peer_write(size_t n)
    {
        if (raw < 0 || peer_fin || peer_rst) return;
        n = std::min(n, pending.size());
        if (!n) return;
        std::string chunk = pending.substr(0, n);
        pending.erase(0, n);
        if (tls && !tls_garbage) {
            if (!g_tls.handshake_done) { pending = chunk + pending; return; }
            size_t off = 0;
            while (off < chunk.size()) {
                int w = SSL_write(g_tls.ssl, chunk.data() + off, (int)std::min<size_t>(chunk.size() - off, 16384));
                if (w <= 0) break;
                off += w;
            }
            std::string wire = g_tls.take_out();
            write_all(raw, wire.data(), wire.size());
            raw_wire_bytes += wire.size();
        } else {
            write_all(raw, chunk.data(), chunk.size());
            raw_wire_bytes += chunk.size();
        }
        written += chunk;
    }

    // relay handshake bytes between the TLS peer and the socket; optional mutation.
    // Only bytes of record *payloads* are mutated: they are covered by the
    // handshake transcript or by the AEAD, so a genuine implementation must fail.
    // (TLS 1.3 tells receivers to ignore the version field of the record header,
    // so flipping that is harmless and would be a false alarm.)
    void pump_tls(long mutate_at, int mutate_kind)
    {
        static long out_off;
        static int hdr_pos;      // 0..4 while inside a record header
        static long rec_left;    // payload bytes left in the current record
        static int hdr_len_hi;
        if (!g_tls.ssl) return;
        if (mutate_at == -2) { out_off = 0; hdr_pos = 0; rec_left = 0; mutated = false; return; }
        char buf[8192];
        for (int round = 0; round < 4; round++) {
            ssize_t n = recv(raw, buf, sizeof(buf), MSG_DONTWAIT);
            if (n > 0) g_tls.feed(buf, n);
            g_tls.step();
            std::string out = g_tls.take_out();
            if (!out.empty()) {
                std::string sent;
                for (size_t k = 0; k < out.size(); k++) {
                    unsigned char ch = out[k];
                    bool payload = rec_left > 0;
                    if (payload) rec_left--;
                    else {
                        if (hdr_pos == 3) hdr_len_hi = ch;
                        if (hdr_pos == 4) { rec_left = (hdr_len_hi << 8) | ch; hdr_pos = 0; }
                        else hdr_pos++;
                    }
                    if (!mutated && mutate_at >= 0 && out_off + (long)k >= mutate_at && payload) {
                        mutated = true;
                        if (mutate_kind == 2) sent.append("\x16\x03\x03\x00\x02\xff\xff", 7);
                        else ch ^= mutate_kind == 0 ? 0x40 : 0x01;
                        if (peer_is_server && g_tls.handshake_done) { tls_post_corrupt = true; c.cls("tls:post-handshake-record-corrupted"); }
                        else { tls_garbage = true; c.cls("tls:handshake-mutated"); }
                    }
                    sent += (char)ch;
                }
                out_off += out.size();
                write_all(raw, sent.data(), sent.size());
            }
        }
    }
    bool mutated = false;

    Outcome after_terminal(const char *what, int rc, int e)
    {
        // once EPROTO has been reported every later call reports it too
        if (eproto_seen)
            VF_CHECK(rc == -1 && e == EPROTO, "EPROTO was reported earlier but %s now gives rc=%d errno=%s", what, rc, errname(e));
        return Outcome::pass();
    }

    Outcome xcm_recv(size_t cap)
    {
        char *buf = (char *)malloc(cap ? cap : 1);
        errno = 0;
        int rc = x_receive(x, buf, cap);
        int e = errno;
        if (rc != -1 || e != EAGAIN) c.log("xcm_receive(cap %zu) -> %d %s", cap, rc, rc < 0 ? errname(e) : "");
        Outcome o = after_terminal("xcm_receive", rc, e);
        do {
            if (!o.ok) break;
            if (rc > 0) {
                if (tls_garbage || tls_post_corrupt) { o = failf("data (%d bytes) delivered on a TLS connection whose %s bytes were corrupted/not a genuine peer's", rc, tls_garbage ? "handshake" : "record"); break; }
                if ((size_t)rc > cap) { o = failf("xcm_receive returned %d > capacity %zu", rc, cap); break; }
                if (closed_seen) { o = failf("xcm_receive returned %d after it had reported the close", rc); break; }
                if (bs) {
                    if (delivered + rc > written.size() || memcmp(buf, written.data() + delivered, rc) != 0) { o = failf("byte stream: received %d bytes at offset %zu that the peer did not write there", rc, delivered); break; }
                    delivered += rc;
                } else {
                    Decoded d = decode(written);
                    if (delivered >= d.msgs.size()) { o = failf("xcm_receive delivered a %d-byte message but the peer has written only %zu complete well-formed frames%s", rc, d.msgs.size(), d.malformed ? " (then a malformed one)" : ""); break; }
                    auto m = d.msgs[delivered];
                    size_t want = std::min(m.second, cap);
                    if ((size_t)rc != want || memcmp(buf, written.data() + m.first, rc) != 0) { o = failf("message #%zu: got %d bytes, expected %zu of frame at offset %zu", delivered, rc, want, m.first); break; }
                    if (rc > 65535) { o = failf("delivered a message longer than xcm.max_msg_size"); break; }
                    delivered++;
                }
            } else if (rc == 0) {
                // close: only if the peer really closed, and (messaging) nothing complete is left
                if (!peer_fin && !peer_rst) { o = failf("xcm_receive returned 0 (closed) but the peer is alive%s", !bs && decode(written).malformed ? "; the stream holds a frame with an illegal length, EPROTO expected" : ""); break; }
                if (!bs && peer_fin) {
                    Decoded d = decode(written);
                    if (delivered < d.msgs.size()) { o = failf("close reported with %zu complete message(s) undelivered", d.msgs.size() - delivered); break; }
                    if (d.malformed) { o = failf("peer closed after a frame with an illegal length: 0 (closed) reported instead of EPROTO"); break; }
                }
                if (bs && peer_fin && delivered < written.size()) { o = failf("close reported with %zu byte(s) undelivered", written.size() - delivered); break; }
                closed_seen = true;
            } else if (e == EPROTO) {
                bool legit;
                if (tls && (tls_garbage || tls_post_corrupt)) legit = true;
                else if (bs) legit = tls && (peer_fin || peer_rst); // truncated TLS record at close
                else {
                    Decoded d = decode(written);
                    legit = (d.malformed && delivered == d.msgs.size()) || (tls && (peer_fin || peer_rst));
                    if (d.malformed && delivered < d.msgs.size()) { o = failf("EPROTO reported with %zu well-formed message(s) before the malformed frame still undelivered", d.msgs.size() - delivered); break; }
                }
                if (!legit) { o = failf("xcm_receive reports EPROTO but everything the peer wrote is well-formed"); break; }
                eproto_seen = true;
            } else if (e != EAGAIN) {
                if (!(peer_fin || peer_rst)) { o = failf("xcm_receive failed with %s while the peer is alive", errname(e)); break; }
                closed_seen = true;
            }
        } while (0);
        free(buf);
        return o;
    }

    Outcome xcm_send_probe(size_t len)
    {
        std::vector<uint8_t> b(len ? len : 1);
        prf_fill(77, b.data(), len);
        int rc = x_send(x, b.data(), len);
        int e = errno;
        Outcome o = after_terminal("xcm_send", rc, e);
        if (!o.ok) return o;
        // (a messaging send may be *buffered* while the handshake is pending; it is
        // never transmitted unless the handshake succeeds, which finish/receive judge)
        if (rc < 0 && e == EPROTO) {
            bool legit = tls_garbage || tls_post_corrupt || (tls && (peer_fin || peer_rst)) || (!bs && decode(written).malformed);
            VF_CHECK(legit, "xcm_send reports EPROTO but the peer wrote nothing malformed");
            // a send may discover the error only if receive could have: do not mark sticky unless receive saw it
        }
        return Outcome::pass();
    }

    Outcome xcm_finish_probe()
    {
        int rc = x_finish(x);
        int e = errno;
        Outcome o = after_terminal("xcm_finish", rc, e);
        if (!o.ok) return o;
        if (rc == 0) {
            usable_seen = true;
            VF_CHECK(!tls_garbage, "xcm_finish succeeded on a TLS connection whose handshake bytes were not a genuine peer's");
        }
        return Outcome::pass();
    }

    Outcome mem_check(const char *when)
    {
        size_t now = allocated();
        if (!base_alloc || !now) return Outcome::pass();
        long delta = (long)now - (long)base_alloc;
        count("max_alloc_delta_seen", 0);
        VF_CHECK(delta < (long)(1 << 20),
                 "the connection holds %ld bytes more heap than at establishment %s (peer wrote %zu bytes): more than one maximum-size frame is buffered",
                 delta, when, raw_wire_bytes);
        return Outcome::pass();
    }
};

class C07 : public Harness {
public:
    const char *property() override { return "C07"; }
    size_t cfg_len() override { return 8; }
    size_t step_len() override { return 6; }
    size_t max_steps() override { return 80; }
    void setup() override
    {
        World &w = World::get();
        g_tls.init_ctx(w.certdir);
        raw_listener();
    }

    Outcome run(const Plan &p, Case &c) override
    {
        sh_reset();
        Dec cfg(p.cfg);
        Run r(c);
        static const int TPS[] = {TCP, TCP, BTCP, TLS, TLS, BTLS};
        r.tp = TPS[cfg.ch(6)];
        if (getenv("VF_TP")) r.tp = atoi(getenv("VF_TP"));
        r.bs = is_bytestream(r.tp);
        r.tls = uses_tls(r.tp);
        r.xcm_accept_side = cfg.flag();
        // TLS phase: 0 genuine peer (attack in the plaintext), 1 garbage instead of
        // the handshake, 2 genuine handshake with one mutated wire byte/insertion
        int tls_phase = r.tls ? (int)cfg.ch(4) : 0;
        if (tls_phase == 3) tls_phase = 0;
        long mutate_at = tls_phase == 2 ? (long)cfg.range(0, 2500) : -1;
        int mutate_kind = cfg.ch(3);
        World &w = World::get();
        std::string err;
        r.x.tag = 2;
        // A healthy TLS connection served by the same thread: what a hostile peer does to one
        // connection must not harm another (the OpenSSL error queue is per thread).
        Ep by_a, by_b;
        bool bystander = r.tls && cfg.ch(2) == 0;
        if (bystander) {
            PairOpts po;
            po.tp = cfg.ch(2) ? TLS : BTLS;
            po.client_tag = 20;
            po.server_conn_tag = 21;
            std::string e2 = make_pair(po, by_a, by_b);
            VF_CHECK(e2.empty(), "setup: bystander pair: %s", e2.c_str());
            c.cls("bystander-tls-connection");
            // drain session tickets so that the next receive is a plain would-block
            uint8_t tmp[64];
            for (int i = 0; i < 20; i++) { x_receive(by_a, tmp, sizeof(tmp)); x_receive(by_b, tmp, sizeof(tmp)); }
        }
        struct ByGuard { Ep &a, &b; ~ByGuard() { x_close(a); x_close(b); } } by_guard{by_a, by_b};
        // ---- establish
        if (r.xcm_accept_side) {
            Server &sv = w.server(r.tp, false, err);
            VF_CHECK(sv.ok, "setup: %s", err.c_str());
            w.drain_accept_queue(sv);
            size_t colon = sv.connect_addr.rfind(':');
            int port = atoi(sv.connect_addr.c_str() + colon + 1);
            r.raw = socket(AF_INET, SOCK_STREAM, 0);
            struct sockaddr_in a;
            memset(&a, 0, sizeof(a));
            a.sin_family = AF_INET;
            a.sin_addr.s_addr = htonl(INADDR_LOOPBACK);
            a.sin_port = htons(port);
            VF_CHECK(connect(r.raw, (struct sockaddr *)&a, sizeof(a)) == 0, "setup: raw connect: %s", errname(errno));
            fcntl(r.raw, F_SETFL, O_NONBLOCK);
            int one = 1;
            setsockopt(r.raw, IPPROTO_TCP, TCP_NODELAY, &one, sizeof(one));
            if (r.tls && tls_phase != 1) { g_tls.start(false); r.pump_tls(-2, 0); r.pump_tls(mutate_at, mutate_kind); }
            for (int i = 0; i < 200 && !r.x.s; i++) {
                sh_enter(r.x.tag, 1);
                r.x.s = xcm_accept(sv.ep.s);
                int e = errno;
                sh_leave();
                if (!r.x.s && e != EAGAIN) break;
                if (!r.x.s) usleep(200);
            }
            if (!r.x.s) {
                // an accept that fails because of what the peer wrote is a clean rejection
                close(r.raw);
                VF_CHECK(r.tls && (tls_phase != 0), "setup: xcm_accept failed: %s", errname(errno));
                c.cls("rejected-at-accept");
                return Outcome::pass();
            }
        } else {
            std::string addr = World::client_proto(r.tp) + ":127.0.0.1:" + std::to_string(g_listen_port);
            struct xcm_attr_map *a = xcm_attr_map_create();
            xcm_attr_map_add_bool(a, "xcm.blocking", false);
            if (r.bs) xcm_attr_map_add_str(a, "xcm.service", "bytestream");
            r.x.s = call(r.x, [&] { return xcm_connect_a(addr.c_str(), a); });
            xcm_attr_map_destroy(a);
            VF_CHECK(r.x.s != nullptr, "setup: xcm_connect_a(%s): %s", addr.c_str(), errname(errno));
            for (int i = 0; i < 200 && r.raw < 0; i++) {
                r.raw = accept4(g_listen_fd, nullptr, nullptr, SOCK_NONBLOCK);
                if (r.raw < 0) { x_finish(r.x); usleep(200); }
            }
            VF_CHECK(r.raw >= 0, "setup: raw accept failed");
            int one = 1;
            setsockopt(r.raw, IPPROTO_TCP, TCP_NODELAY, &one, sizeof(one));
            if (r.tls && tls_phase != 1) { g_tls.start(true); r.peer_is_server = true; r.pump_tls(-2, 0); }
        }
        r.x.closed = false;
        r.x.fd = x_fd(r.x);
        c.log("%s, XCM on the %s side%s", tp_name(r.tp), r.xcm_accept_side ? "accept" : "connect",
              !r.tls ? "" : tls_phase == 0 ? ", genuine TLS peer" : tls_phase == 1 ? ", garbage instead of handshake" : ", handshake mutated");
        c.cls(std::string("tp:") + tp_name(r.tp) + (r.xcm_accept_side ? "/accept-side" : "/connect-side"));
        if (r.tls && tls_phase == 1) { r.tls_garbage = true; c.cls("tls:garbage-instead-of-handshake"); }
        // drive the TLS handshake (genuine or mutated)
        Outcome o = Outcome::pass();
        if (r.tls && tls_phase != 1) {
            for (int i = 0; i < 400 && o.ok; i++) {
                r.pump_tls(mutate_at, mutate_kind);
                o = r.xcm_finish_probe();
                if (g_tls.handshake_done && r.usable_seen) break;
                if (g_tls.failed || r.eproto_seen) break;
                int rc = x_finish(r.x);
                if (rc < 0 && errno != EAGAIN) break;
                usleep(100);
            }
            if (o.ok && tls_phase == 0)
                VF_CHECK(g_tls.handshake_done && r.usable_seen, "setup: genuine TLS handshake did not complete (peer done %d failed %d, xcm usable %d)", g_tls.handshake_done, g_tls.failed, r.usable_seen);
            if (tls_phase == 2 && !r.tls_garbage) { // mutation offset beyond the flight: nothing mutated
                c.cls("tls:mutation-offset-beyond-handshake");
            }
        }
        // the harness' own stream storage must not count towards the bound
        r.pending.reserve(4u << 20);
        r.written.reserve(8u << 20);
        r.base_alloc = allocated();
        bool header_split = false, illegal_hdr = false;
        // ---- steps
        for (auto &st : p.steps) {
            if (!o.ok) break;
            Dec d(st);
            uint32_t k = d.ch(100);
            if (k < 30) { // append a frame
                static const int LENS[] = {1, 2, 3, 4, 5, 100, 255, 256, 4096, 16384, 65534, 65535};
                uint32_t len = d.ch(2) ? (uint32_t)d.pick(LENS) : (uint32_t)d.range(1, 3000);
                uint32_t hdr = len;
                uint32_t ov = d.ch(12);
                static const uint32_t BAD[] = {0, 65536, 65537, 0x7fffffff, 0xffffffff, 0x80000000, 0x00010000, 0x01000000};
                if (ov == 0) { hdr = d.pick(BAD); illegal_hdr = true; }
                else if (ov == 1) { hdr = d.raw(); if (hdr == 0 || hdr > 65535) illegal_hdr = true; }
                else if (ov == 2) { len = len / 2; } // truncated: payload shorter than announced
                uint32_t tag = d.raw();
                char h[4] = {(char)(hdr >> 24), (char)(hdr >> 16), (char)(hdr >> 8), (char)hdr};
                r.pending.append(h, 4);
                size_t o0 = r.pending.size();
                r.pending.resize(o0 + len);
                prf_fill(tag, (uint8_t *)&r.pending[o0], len);
                if (r.pending.size() > (3u << 20)) r.pending.resize(3u << 20);
            } else if (k < 38) { // raw garbage
                size_t n = (size_t)d.range(1, d.ch(3) ? 64 : 70000);
                size_t o0 = r.pending.size();
                r.pending.resize(o0 + n);
                prf_fill(d.raw(), (uint8_t *)&r.pending[o0], n);
            } else if (k < 62) { // the peer writes a segment
                static const int SEG[] = {1, 1, 2, 3, 4, 5, 7, 100, 1000, 65536};
                size_t n = d.ch(3) == 0 ? r.pending.size() : (size_t)d.pick(SEG);
                if (n < 4 && !r.pending.empty()) header_split = true;
                if (r.tls && !r.tls_garbage && !g_tls.handshake_done) continue;
                r.peer_write(n);
                c.log("peer writes %zu bytes (total %zu)", std::min(n, r.pending.size() + n), r.written.size());
            } else if (k < 84) {
                static const int CAPS[] = {1, 4, 100, 65535, 65535, 65535, 70000};
                o = r.xcm_recv(r.bs && d.flag() ? (size_t)d.range(1, 70000) : (size_t)d.pick(CAPS));
            } else if (k < 88) {
                o = r.xcm_send_probe((size_t)d.range(1, 2000));
            } else if (k < 94) {
                o = r.xcm_finish_probe();
            } else if (k < 97) {
                int64_t v;
                call(r.x, [&] { return xcm_attr_get_int64(r.x.s, "xcm.from_lower_bytes", &v); });
                x_await(r.x, XCM_SO_RECEIVABLE);
            }
            if (o.ok) o = r.mem_check("while the application was not draining");
        }
        // ---- the peer writes everything left, XCM receives until nothing more comes
        if (o.ok && r.raw >= 0) {
            // a big tail written while XCM does not read must not be buffered in user space
            r.peer_write(r.pending.size());
            o = r.mem_check("after the peer wrote everything");
        }
        int fin_kind = (int)cfg.ch(3); // 0 keep open, 1 FIN, 2 RST
        if (o.ok) o = settle(r);
        if (o.ok && fin_kind && r.raw >= 0) {
            if (fin_kind == 2) {
                struct linger lg = {1, 0};
                setsockopt(r.raw, SOL_SOCKET, SO_LINGER, &lg, sizeof(lg));
                r.peer_rst = true;
            } else
                r.peer_fin = true;
            close(r.raw);
            r.raw = -1;
            c.log("peer %s", fin_kind == 2 ? "resets" : "closes");
            o = settle(r);
            if (o.ok && !r.eproto_seen && !r.closed_seen)
                o = failf("the peer closed but xcm_receive never reported it (EAGAIN for 2 s)");
        }
        // final verdicts
        if (o.ok && !r.bs && !r.tls_garbage && !r.tls_post_corrupt) {
            Decoded d = decode(r.written);
            if (!r.peer_rst)
                VF_CHECK(r.delivered == d.msgs.size(), "%zu well-formed message(s) precede the first malformed/incomplete frame but %zu were delivered", d.msgs.size(), r.delivered);
            if (d.malformed && !r.peer_rst)
                VF_CHECK(r.eproto_seen, "the stream contains a frame announcing an illegal length after %zu good messages, but EPROTO was never reported", d.msgs.size());
        }
        if (o.ok && r.bs && !r.tls_garbage && !r.tls_post_corrupt && !r.peer_rst)
            VF_CHECK(r.delivered == r.written.size(), "byte stream: %zu of %zu bytes delivered", r.delivered, r.written.size());
        if (o.ok && r.tls_garbage) {
            // never usable; terminal report within the bound (unless the peer stays silent)
            VF_CHECK(!r.usable_seen || tls_phase == 2, "TLS garbage: xcm_finish had succeeded");
        }
        if (o.ok && bystander) {
            uint8_t tmp[256];
            for (Ep *e : {&by_a, &by_b}) {
                int rc = x_receive(*e, tmp, sizeof(tmp));
                VF_CHECK(rc < 0 && errno == EAGAIN, "a healthy %s connection in the same thread reports %d %s on receive after the hostile input on the other connection",
                         e == &by_a ? "client-side" : "server-side", rc, rc < 0 ? errname(errno) : "");
                rc = x_finish(*e);
                VF_CHECK(rc == 0, "a healthy connection in the same thread reports %s on finish after the hostile input on the other connection", errname(errno));
            }
            uint8_t m[100];
            prf_fill(4711, m, sizeof(m));
            int rc = x_send(by_a, m, sizeof(m));
            VF_CHECK(rc == 0 || rc == 100, "send on the healthy bystander connection failed: %s", errname(errno));
            int got = -1;
            for (int i = 0; i < 2000 && got < 0; i++) { x_finish(by_a); got = x_receive(by_b, tmp, sizeof(tmp)); if (got < 0 && errno != EAGAIN) break; if (got < 0) usleep(100); }
            VF_CHECK(got == 100 && memcmp(tmp, m, 100) == 0, "the healthy bystander connection did not deliver a message after the hostile input (rc %d %s)", got, got < 0 ? errname(errno) : "");
        }
        if (illegal_hdr || header_split || r.tls_garbage || r.tls_post_corrupt) c.nt();
        if (illegal_hdr) c.cls("illegal-header");
        if (header_split) c.cls("segment<4-bytes");
        if (r.raw >= 0) close(r.raw);
        x_close(r.x);
        return o;
    }

    // receive until nothing more can come (bounded), checking every result
    Outcome settle(Run &r)
    {
        int idle = 0;
        for (int i = 0; i < 100000; i++) {
            size_t before = r.delivered;
            bool e0 = r.eproto_seen, c0 = r.closed_seen;
            if (r.tls && !r.tls_garbage) r.pump_tls(-1, 0);
            Outcome o = r.xcm_recv(70000);
            if (!o.ok) return o;
            if (r.eproto_seen || r.closed_seen) {
                // stickiness: a few more calls of each kind
                for (int k = 0; k < 3; k++) {
                    o = r.xcm_recv(100); if (!o.ok) return o;
                    o = r.xcm_send_probe(10); if (!o.ok) return o;
                    o = r.xcm_finish_probe(); if (!o.ok) return o;
                }
                return Outcome::pass();
            }
            if (r.delivered != before || e0 != r.eproto_seen || c0 != r.closed_seen) { idle = 0; continue; }
            // expected state reached?
            bool more_expected;
            if (r.tls_garbage || r.tls_post_corrupt) more_expected = r.raw_wire_bytes > 0 || r.peer_fin || r.peer_rst; // must end in a terminal report
            else if (r.bs) more_expected = r.delivered < r.written.size() || r.peer_fin || r.peer_rst;
            else { Decoded d = decode(r.written); more_expected = r.delivered < d.msgs.size() || d.malformed || r.peer_fin || r.peer_rst; }
            if (!more_expected) return Outcome::pass();
            if (++idle > 400) return Outcome::pass(); // verdicts are drawn by the caller
            x_await(r.x, XCM_SO_RECEIVABLE);
            fd_readable(r.x.fd, 5);
        }
        return Outcome::pass();
    }
};

} // namespace

namespace vf {
Harness *make_harness() { return new C07(); }
}
