// C06 - terminal conditions are reported faithfully and stick.
//
// Three generators, one oracle (a terminal-state machine over the results of
// every call made on the endpoint under test, T):
//   A  errno enumeration: a generated traffic scenario is run once fault-free
//      to count the send()/recv() calls T's connection makes (handshake
//      included); then it is re-run once per (direction, call index, errno)
//      with exactly that call failing.  Complete per scenario.
//   B  peer death at a byte offset: the peer P (a real XCM endpoint) may hand
//      only `c` bytes to the kernel (shim budget; c generated around header /
//      payload / record boundaries, 0..handshake size for the TLS handshake),
//      then dies: FIN, close, close after budget lifted, or RST.
//   C  failed establishment: connect() / the connect status probe of T fails
//      with a generated errno (after 0..k "still in progress" answers), or the
//      port is really closed.
#include "vf.h"
#include "xpair.h"

#include <algorithm>
#include <arpa/inet.h>
#include <netinet/in.h>
#include <sys/ioctl.h>
#include <sys/socket.h>

using namespace vf;
using namespace xp;

namespace {

enum OpKind { OP_SEND, OP_RECV, OP_FINISH };
const char *op_name(int k) { return k == OP_SEND ? "xcm_send" : k == OP_RECV ? "xcm_receive" : "xcm_finish"; }

struct Step {
    int kind;  // 0 T.send 1 T.recv 2 T.finish 3 P.send 4 P.recv 5 P.finish 6 T.script 7 nop
    uint32_t len, tag, aux, aux2;
};

struct Fault { int dir = -1, idx = 0, err = 0; };

struct Scn {
    int tp = TCP;
    bool small = false;
    int tside = 0; // 0: T is the connecting socket, 1: T is the accepted socket
    bool recv_only_after_cut = false; // after P's death T first does nothing but receive: xcm_receive alone has to report it
    std::vector<Step> steps;
    // mode B
    int cut_kind = 0;   // 0 FIN(shutdown) 1 close 2 close after lifting the budget 3 RST 4 close with unread data (ux)
    long budget = -1;   // bytes P may write after establishment (-1 none)
    long hs_budget = -1; // bytes P may write from the very start (handshake cut), -1 none
    size_t cut_at = 0;  // step index at which P dies
};

struct Ledger {
    std::vector<std::pair<uint32_t, uint32_t>> msgs;
    size_t delivered = 0;
    std::string bytes;
    size_t off = 0;
    size_t moved = 0;    // bytes of `pending` already received (and moved into `bytes`)
    std::string pending; // btls: bytes of a refused send OpenSSL may transmit anyway (C02's recorded finding)
};

struct Exec {
    Case &c;
    const Scn &sc;
    bool bs, tcpb, tls;
    Ep T, P;
    Ledger t2p, p2t;
    // terminal state machine of T
    enum { NONE, CLOSED, BAD } term = NONE;
    int term_errno = 0;
    int first_observer = -1;
    // what the harness did to justify a terminal report
    int inj_errno = 0;      // errno of the injected fault once it has hit
    bool peer_fin = false;  // P half-closed / closed in an orderly way
    bool peer_gone = false; // P closed its socket (FIN or RST may reach T)
    bool peer_rst = false;
    bool t_sent_after_cut = false;
    bool ready_T = false, ready_P = false;
    bool fault_hit_in_handshake = false, fault_hit_with_pending = false;
    int calls_after_term = 0;
    bool recv_closed_seen = false;
    Exec(Case &cc, const Scn &s) : c(cc), sc(s)
    {
        bs = is_bytestream(sc.tp);
        tcpb = is_tcp_based(sc.tp);
        tls = uses_tls(sc.tp);
    }

    bool allowed_first(bool closed, int e, std::string &why)
    {
        // T reports a terminal condition for the first time: is there a cause?
        if (inj_errno) {
            if (closed) { if (inj_errno == EPIPE) return true; why = "reported as orderly close"; }
            else if (e == inj_errno) return true;
            else why = std::string("reported ") + errname(e);
            // a fault that hit while the peer is also gone: either cause may be reported
            if (!peer_gone && !peer_fin) return false;
        }
        if (peer_fin || peer_gone) {
            if (closed) return true;
            if (e == EPIPE || e == ECONNRESET) return true;
            if (tls && e == EPROTO) return true; // no close_notify / truncated record
            why = std::string("reported ") + errname(e) + " after the peer closed";
            return false;
        }
        if (why.empty()) why = "nothing happened to the connection";
        return false;
    }

    Outcome judge(int kind, uint32_t tag, uint32_t len, size_t cap, uint8_t *buf, int rc, int e, bool hit, int64_t pend)
    {
        if (hit) {
            if (!ready_T) fault_hit_in_handshake = true;
            if (pend > 0) fault_hit_with_pending = true;
        }
        bool success = kind == OP_RECV ? rc > 0 : kind == OP_SEND ? (bs ? rc > 0 : rc == 0) : rc == 0;
        // any send attempt (even one that fails half-way) and any flush of a pending frame may
        // have put bytes on the wire towards a closed peer, which answers with a reset
        if ((kind == OP_SEND || pend > 0) && (peer_gone || peer_fin)) t_sent_after_cut = true;
        bool closed_report = kind == OP_RECV && rc == 0;
        bool eagain = rc < 0 && e == EAGAIN;
        bool error_report = rc < 0 && e != EAGAIN;
        if (kind == OP_SEND && !bs) VF_CHECK(rc == 0 || rc == -1, "xcm_send returned %d on a messaging socket", rc);
        // ---- the call during which the injected failure occurred must report it
        if (hit) {
            if (inj_errno == EPIPE && kind == OP_RECV)
                VF_CHECK(closed_report || (rc < 0 && e == EPIPE), "C06: EPIPE hit inside xcm_receive, which returned %d %s (want 0 or EPIPE)", rc, rc < 0 ? errname(e) : "");
            else
                VF_CHECK(rc < 0 && e == inj_errno,
                         "C06: %s on %s: the lower layer failed with %s inside this call, but it returned %d %s",
                         op_name(kind), tp_name(sc.tp), errname(inj_errno), rc, rc < 0 ? errname(e) : "(success)");
        }
        // ---- terminal state machine
        if (term != NONE) {
            calls_after_term++;
            if (kind == OP_FINISH && !tcpb) return Outcome::pass(); // ux: finish has no meaning
            if (success && kind == OP_RECV && term == BAD && term_errno == EPIPE && !recv_closed_seen) {
                // the peer's close was discovered by a send (EPIPE); messages that
                // had already arrived may still be handed over before receive says 0
                return deliver(p2t, buf, rc, cap, "T");
            }
            if (kind == OP_RECV && rc == 0 && !recv_closed_seen) {
                Outcome lo = close_lower_bound();
                if (!lo.ok) return lo;
            }
            if (kind == OP_RECV && rc == 0) recv_closed_seen = true;
            VF_CHECK(!success, "C06: %s succeeded (rc %d) after the connection had reported %s", op_name(kind), rc,
                     term == CLOSED ? "orderly close" : errname(term_errno));
            if (tcpb) {
                int want = term == CLOSED ? EPIPE : term_errno;
                if (kind == OP_RECV) {
                    if (term == CLOSED || want == EPIPE)
                        // (the call that discovers the close through a failing write may itself say EPIPE;
                        //  every receive after it says 0 and keeps saying 0)
                        VF_CHECK(closed_report, "C06: xcm_receive after the peer's close had been reported (%s) returned %d %s (want 0, and 0 from then on)",
                                 term == CLOSED ? "receive returned 0" : "EPIPE", rc, rc < 0 ? errname(e) : "");
                    else
                        VF_CHECK(rc < 0 && e == want, "C06: xcm_receive after the connection failed with %s returned %d %s (same errno expected)",
                                 errname(want), rc, rc < 0 ? errname(e) : "");
                } else {
                    bool size_err = kind == OP_SEND && !bs && (len == 0 || len > 65535);
                    if (!size_err)
                        VF_CHECK(rc < 0 && e == want, "C06: %s after the connection %s returned %d %s (want %s)", op_name(kind),
                                 term == CLOSED ? "was seen closed" : (std::string("failed with ") + errname(term_errno)).c_str(), rc,
                                 rc < 0 ? errname(e) : "", errname(want));
                }
            }
            return Outcome::pass();
        }
        if (closed_report || error_report) {
            bool size_err = kind == OP_SEND && !bs && ((len == 0 && e == EINVAL) || (len > 65535 && e == EMSGSIZE));
            if (size_err) return Outcome::pass();
            std::string why;
            VF_CHECK(allowed_first(closed_report, e, why),
                     "C06: %s on %s returned %d %s although %s", op_name(kind), tp_name(sc.tp), rc, rc < 0 ? errname(e) : "(peer closed)",
                     why.c_str());
            if (closed_report) {
                Outcome lo = close_lower_bound();
                if (!lo.ok) return lo;
            }
            if (closed_report) recv_closed_seen = true;
            term = closed_report ? CLOSED : BAD;
            term_errno = e;
            first_observer = kind;
            return Outcome::pass();
        }
        if (eagain) return Outcome::pass();
        // ---- success
        if (kind == OP_FINISH) { ready_T = true; return Outcome::pass(); }
        if (kind == OP_SEND) {
            if (peer_gone || peer_fin) t_sent_after_cut = true;
            if (bs) {
                VF_CHECK(rc >= 1 && (uint32_t)rc <= len, "xcm_send(len %u) returned %d", len, rc);
                { size_t skip = std::min<size_t>(t2p.moved, rc); t2p.bytes.append((const char *)buf + skip, rc - skip); t2p.moved = 0; }
            } else
                t2p.msgs.push_back({tag, len});
            return Outcome::pass();
        }
        return deliver(p2t, buf, rc, cap, "T");
    }

    Outcome deliver(Ledger &l, uint8_t *buf, int rc, size_t cap, const char *who)
    {
        VF_CHECK((size_t)rc <= cap, "xcm_receive returned %d > capacity %zu", rc, cap);
        if (bs) {
            std::string all = l.bytes + l.pending;
            VF_CHECK(l.off + rc <= all.size(), "C06: %s received %d bytes but only %zu accepted bytes were outstanding (partial or invented data)", who, rc, all.size() - l.off);
            VF_CHECK(memcmp(buf, all.data() + l.off, rc) == 0, "C06: %s received bytes that differ from the accepted stream at offset %zu", who, l.off);
            l.off += rc;
            if (l.off > l.bytes.size()) { l.moved += l.off - l.bytes.size(); l.bytes = all.substr(0, l.off); l.pending = all.substr(l.off); }
            return Outcome::pass();
        }
        VF_CHECK(l.delivered < l.msgs.size(), "C06: %s received a %d-byte message although every accepted message had been delivered (partial, duplicated or invented message)", who, rc);
        auto m = l.msgs[l.delivered];
        size_t want = std::min<size_t>(m.second, cap);
        VF_CHECK((size_t)rc == want, "C06: %s: message #%zu has %u bytes, receive(cap %zu) returned %d", who, l.delivered, m.second, cap, rc);
        for (int k = 0; k < rc; k++)
            VF_CHECK(buf[k] == prf_byte(m.first, k), "C06: %s: message #%zu differs at byte %d", who, l.delivered, k);
        l.delivered++;
        return Outcome::pass();
    }

    // number of complete messages (bytes) of P->T that certainly reached T's kernel
    size_t complete_arrived()
    {
        if (!peer_fin && !peer_gone) return 0;
        uint64_t wire = sh_cnt(P.tag)->send_bytes;
        if (sc.tp == TCP) {
            size_t k = 0;
            uint64_t acc = wire_base;
            for (auto &m : p2t.msgs) {
                acc += 4 + m.second;
                if (acc <= wire) k++; else break;
            }
            return k;
        }
        if (sc.tp == BTCP) return (size_t)std::min<uint64_t>(wire - std::min<uint64_t>(wire, wire_base), p2t.bytes.size());
        if (is_ux_leg(sc.tp)) return p2t.msgs.size();
        // TLS: only when everything was flushed and the close was orderly
        if (flushed_before_close) return bs ? p2t.bytes.size() : p2t.msgs.size();
        return 0;
    }
    uint64_t wire_base = 0; // P's send_bytes when the data phase started
    bool flushed_before_close = false;

    // P's calls: never judged for terminal behaviour, only for what they deliver
    Outcome pcall(int kind, uint32_t tag, uint32_t len)
    {
        if (P.closed) return Outcome::pass();
        errno = 0;
        if (kind == OP_SEND) {
            if (sc.tp == BTLS && p_refused) { tag = p_ref_tag; len = p_ref_len; count("btls-identical-retry"); }
            std::vector<uint8_t> b(len ? len : 1);
            prf_fill(tag, b.data(), len);
            int rc = x_send(P, b.data(), len);
            int e = errno;
            if (sc.tp == BTLS) {
                p_refused = rc < 0 && e == EAGAIN;
                if (p_refused) { p_ref_tag = tag; p_ref_len = len; size_t mv = std::min<size_t>(p2t.moved, len); p2t.pending.assign((const char *)b.data() + mv, len - mv); }
                else if (rc > 0) p2t.pending.clear();
            }
            c.log("P xcm_send(%u) -> %d %s", len, rc, rc < 0 ? errname(e) : "");
            if (bs) { if (rc > 0) { size_t skip = std::min<size_t>(p2t.moved, rc); p2t.bytes.append((const char *)b.data() + skip, rc - skip); p2t.moved = 0; } }
            else if (rc == 0) p2t.msgs.push_back({tag, len});
            if (rc < 0 && e != EAGAIN && !(len == 0 || len > 65535))
                VF_CHECK(term != NONE || inj_errno || T.closed || peer_fin || peer_gone, "C06: peer's xcm_send failed with %s although nothing had happened", errname(e));
        } else if (kind == OP_RECV) {
            size_t cap = len ? len : 1;
            std::vector<uint8_t> b(cap);
            int rc = x_receive(P, b.data(), cap);
            int e = errno;
            c.log("P xcm_receive(%zu) -> %d %s", cap, rc, rc < 0 ? errname(e) : "");
            if (rc > 0) return deliver(t2p, b.data(), rc, cap, "P");
            if (rc == 0 || (rc < 0 && e != EAGAIN))
                VF_CHECK(term != NONE || inj_errno || T.closed || peer_fin || peer_gone, "C06: peer's xcm_receive returned %d %s although nothing had happened", rc, rc < 0 ? errname(e) : "");
        } else {
            int rc = x_finish(P);
            if (rc == 0) ready_P = true;
        }
        return Outcome::pass();
    }

    Outcome establish(const Fault &f)
    {
        World &w = World::get();
        std::string err;
        Server &sv = w.server(sc.tp, sc.small, err);
        VF_CHECK(sv.ok, "setup: %s", err.c_str());
        w.drain_accept_queue(sv);
        Ep &cli = sc.tside == 0 ? T : P;
        Ep &acc = sc.tside == 0 ? P : T;
        cli.tag = 2;
        acc.tag = 3;
        if (f.dir >= 0) { sh_fail_io_at(T.tag, (sh_dir)f.dir, f.idx, f.err); }
        if (sc.hs_budget >= 0) sh_send_budget(P.tag, sc.hs_budget);
        struct xcm_attr_map *a = xcm_attr_map_create();
        xcm_attr_map_add_bool(a, "xcm.blocking", false);
        if (bs) xcm_attr_map_add_str(a, "xcm.service", "bytestream");
        if (sc.small) sh_set_bufsizes(4608, 4608);
        int hits0 = sh_io_fault_hits();
        cli.s = call(cli, [&] { return xcm_connect_a(sv.connect_addr.c_str(), a); });
        int e = errno;
        sh_set_bufsizes(0, 0);
        xcm_attr_map_destroy(a);
        if (!cli.s) {
            bool hit = sh_io_fault_hits() > hits0;
            VF_CHECK(&cli == &T && hit && e == f.err, "C06: xcm_connect_a failed with %s%s", errname(e), hit ? " although the lower layer failed with another errno" : " (nothing injected)");
            c.log("T xcm_connect_a -> NULL %s [injected fault hit inside the call]", errname(e));
            inj_errno = f.err;
            term = BAD; term_errno = e; first_observer = 3;
            return Outcome::pass();
        }
        cli.closed = false;
        cli.fd = x_fd(cli);
        if (sh_io_fault_hits() > hits0) {
            // hit inside xcm_connect_a, which may leave the report to a later call
            inj_errno = f.err;
            if (!ready_T) fault_hit_in_handshake = true;
            c.log("T xcm_connect_a -> socket [injected fault hit inside the call]");
        }
        for (int i = 0; i < 3000 && !acc.s; i++) {
            hits0 = sh_io_fault_hits();
            sh_enter(acc.tag, 1);
            acc.s = xcm_accept(sv.ep.s);
            e = errno;
            sh_leave();
            if (acc.s) {
                if (sh_io_fault_hits() > hits0) { inj_errno = f.err; fault_hit_in_handshake = true; c.log("T xcm_accept -> socket [injected fault hit inside the call]"); }
                break;
            }
            bool hit = sh_io_fault_hits() > hits0;
            if (hit) {
                VF_CHECK(&acc == &T && e == f.err, "C06: xcm_accept failed with %s after the lower layer failed with %s", errname(e), errname(f.err));
                c.log("T xcm_accept -> NULL %s [injected fault hit inside the call]", errname(e));
                inj_errno = f.err;
                term = BAD; term_errno = e; first_observer = 3;
                return Outcome::pass();
            }
            VF_CHECK(e == EAGAIN, "setup: xcm_accept failed with %s", errname(e));
            if (&cli == &T) { Outcome o = tcall(OP_FINISH, 0, 0); if (!o.ok) return o; if (term != NONE) return Outcome::pass(); }
            else x_finish(cli);
            fd_readable(sv.ep.fd, 2);
        }
        VF_CHECK(acc.s != nullptr, "setup: no connection arrived at the server");
        acc.closed = false;
        acc.fd = x_fd(acc);
        // drive both to ready (T through the oracle)
        for (int i = 0; i < 3000; i++) {
            Outcome o = tcall(OP_FINISH, 0, 0);
            if (!o.ok) return o;
            o = pcall(OP_FINISH, 0, 0);
            if (!o.ok) return o;
            if (term != NONE) break;
            if (ready_T && ready_P) break;
            if (sc.hs_budget >= 0 && i > 30) break; // handshake cut: P stalls by design
            x_await(T, 0); x_await(P, 0);
            struct pollfd pf[2] = {{T.fd, POLLIN, 0}, {P.fd, POLLIN, 0}};
            poll(pf, 2, i < 20 ? 1 : 5);
        }
        if (sc.hs_budget < 0 && term == NONE)
            VF_CHECK(ready_T && ready_P, "setup: connection did not become ready (T %d P %d)", ready_T, ready_P);
        return Outcome::pass();
    }

    // orderly close: everything that arrived completely comes before the 0.  Data T sent
    // after the peer had *closed* may have provoked a reset (which destroys unread data);
    // a half-closed peer (shutdown) still reads, so T's sends are harmless there.
    Outcome close_lower_bound()
    {
        if (peer_rst || inj_errno) return Outcome::pass();
        if (t_sent_after_cut && !(sc.cut_kind == 0 && peer_fin && !peer_gone)) return Outcome::pass();
        size_t k = complete_arrived();
        size_t have = bs ? p2t.off : p2t.delivered;
        VF_CHECK(have >= k, "C06: xcm_receive reported the peer's close although %zu complete %s had arrived and only %zu were delivered",
                 k, bs ? "bytes" : "messages", have);
        return Outcome::pass();
    }

    int unsent_at_cut = 0;
    void cut()
    {
        if (P.closed) return;
        int pfd = sh_data_fd(P.tag);
        // bytes the kernel has not yet got across (tiny windows stall TCP for its persist
        // timer): the FIN queues behind them, so its arrival time is the kernel's business
        unsent_at_cut = 0;
        if (pfd >= 0 && is_tcp_based(sc.tp)) ioctl(pfd, TIOCOUTQ, &unsent_at_cut);
        c.log("-- P dies: %s (P wrote %lu wire bytes, budget left %ld)",
              sc.cut_kind == 0 ? "shutdown(SHUT_WR)" : sc.cut_kind == 1 ? "xcm_close with the budget in force" : sc.cut_kind == 2 ? "budget lifted, flush attempt, xcm_close"
                                                                                                                     : sc.cut_kind == 3 ? "RST (SO_LINGER 0 + close)" : "xcm_close with unread data",
              (unsigned long)sh_cnt(P.tag)->send_bytes, sh_send_budget_left(P.tag));
        switch (sc.cut_kind) {
        case 0:
            if (pfd >= 0) shutdown(pfd, SHUT_WR);
            peer_fin = true;
            if (tls) peer_gone = true; // no close_notify: EPROTO is legitimate
            break;
        case 2: {
            sh_send_budget(P.tag, -1);
            bool fl = false;
            for (int i = 0; i < 200 && !fl; i++) { fl = x_finish(P) == 0; if (!fl) usleep(200); }
            flushed_before_close = fl && ready_P;
            x_close(P);
            peer_gone = true;
            if (t2p_unread()) peer_rst = true;
            break;
        }
        case 3: {
            struct linger lg = {1, 0};
            if (pfd >= 0) setsockopt(pfd, SOL_SOCKET, SO_LINGER, &lg, sizeof(lg));
            x_close(P);
            peer_gone = true;
            peer_rst = true;
            break;
        }
        default:
            if (sc.cut_kind == 1 && is_ux_leg(sc.tp)) flushed_before_close = true;
            x_close(P);
            peer_gone = true;
            if (t2p_unread()) peer_rst = true;
            break;
        }
    }
    // T->P data P has not read: the kernel answers a close with RST / ECONNRESET
    bool t2p_unread() { return bs ? t2p.off < t2p.bytes.size() : t2p.delivered < t2p.msgs.size(); }

    Outcome bystander_check()
    {
        // the OpenSSL error queue is per thread: a TLS failure on the connection under test
        // must not change what a healthy connection of the same thread reports
        if (!tls || !by_a || by_a->closed) return Outcome::pass();
        uint8_t tmp[128];
        for (Ep *e : {by_a, by_b}) {
            int rc = x_receive(*e, tmp, sizeof(tmp));
            VF_CHECK(rc < 0 && errno == EAGAIN, "C06: a healthy TLS connection served by the same thread reports %d %s on receive after the other connection's failure", rc, rc < 0 ? errname(errno) : "");
            rc = x_finish(*e);
            VF_CHECK(rc == 0, "C06: a healthy TLS connection served by the same thread reports %s on finish after the other connection's failure", errname(errno));
        }
        // and it reports its own reset as such
        sh_fail_io_at(by_a->tag, SH_RECV, 1, ECONNRESET);
        int rc = x_receive(*by_a, tmp, sizeof(tmp));
        VF_CHECK(rc < 0 && errno == ECONNRESET, "C06: a reset of a healthy TLS connection is reported as %d %s after another connection of the thread failed", rc, rc < 0 ? errname(errno) : "");
        x_close(*by_a);
        x_close(*by_b);
        return Outcome::pass();
    }
    Ep *by_a = nullptr, *by_b = nullptr;

    Outcome run(const Fault &f, bool with_cut, uint64_t *nsend, uint64_t *nrecv)
    {
        sh_reset();
        if (f.dir >= 0) inj_pending = f.err;
        Outcome o = establish(f);
        if (o.ok && f.dir >= 0 && sh_io_fault_hits() && !inj_errno) inj_errno = f.err;
        wire_base = P.s ? sh_cnt(P.tag)->send_bytes : 0;
        if (o.ok && with_cut && sc.budget >= 0 && !P.closed) sh_send_budget(P.tag, sc.budget);
        size_t i = 0;
        for (auto &st : sc.steps) {
            if (!o.ok) break;
            if (with_cut && i == sc.cut_at) { cut(); if (sc.recv_only_after_cut) { o = must_report(o, "by xcm_receive alone, no other call in between"); if (!o.ok) break; } }
            i++;
            if (f.dir >= 0 && sh_io_fault_hits() && !inj_errno) inj_errno = f.err;
            switch (st.kind) {
            case 0: case 1: case 2: o = tcall(st.kind, st.tag, st.len); break;
            case 3: case 4: case 5: o = pcall(st.kind - 3, st.tag, st.len); break;
            case 6:
                if (!T.closed) {
                    int dir = st.aux & 1 ? SH_SEND : SH_RECV;
                    int n = 1 + st.aux2 % 10;
                    for (int k = 0; k < n; k++) {
                        uint8_t b = prf_byte(st.tag, k);
                        if (b % 4 == 0) sh_push(T.tag, (sh_dir)dir, SH_EAGAIN, 0);
                        else sh_push(T.tag, (sh_dir)dir, SH_PASS, 1 + b % 5);
                    }
                    c.log("T script %s x%d", dir == SH_SEND ? "send" : "recv", n);
                }
                break;
            default: break;
            }
        }
        if (o.ok && with_cut && sc.cut_at >= sc.steps.size()) { cut(); if (sc.recv_only_after_cut) o = must_report(o, "by xcm_receive alone, no other call in between"); }
        // fixed tail: every kind of call once more on T (and twice receive)
        static const int TAIL[] = {OP_RECV, OP_SEND, OP_FINISH, OP_RECV, OP_FINISH, OP_SEND, OP_RECV};
        if (o.ok && (f.dir >= 0 || with_cut)) {
            sh_clear(T.tag);
            for (int k = 0; k < 7 && o.ok; k++) {
                o = tcall(TAIL[k], 7000 + k, TAIL[k] == OP_RECV ? 70000 : 10);
            }
        }
        // the peer is dead (FIN or RST has reached T's kernel socket): xcm_receive has to say so
        if (with_cut) o = must_report(o, "after every kind of call has been made once more");
        if (nsend) *nsend = sh_cnt(T.tag)->send_calls;
        if (nrecv) *nrecv = sh_cnt(T.tag)->recv_calls;
        if (o.ok && term != NONE) o = bystander_check();
        sh_send_budget(2, -1);
        sh_send_budget(3, -1);
        sh_fail_io_at(2, SH_SEND, 0, 0); sh_fail_io_at(2, SH_RECV, 0, 0);
        sh_fail_io_at(3, SH_SEND, 0, 0); sh_fail_io_at(3, SH_RECV, 0, 0);
        x_close(T);
        x_close(P);
        return o;
    }
    // P is dead and nothing of what it wrote is still on its way: within 180 ms xcm_receive on T
    // returns what had arrived in full and then the close or the failure - not EAGAIN for ever
    Outcome must_report(Outcome o, const char *how)
    {
        if (!(o.ok && (peer_fin || peer_gone) && term == NONE && !T.closed && (unsent_at_cut == 0 || peer_rst))) return o;
        for (int k = 0; k < 60 && o.ok && term == NONE; k++) {
            o = tcall(OP_RECV, 0, 70000);
            if (term == NONE) usleep(3000);
        }
        if (o.ok && term == NONE)
            o = failf("C06: the peer %s %zu ms ago, yet xcm_receive on %s keeps reporting EAGAIN instead of the close/failure (%s)",
                      peer_rst ? "reset the connection" : "closed", (size_t)180, tp_name(sc.tp), how);
        return o;
    }
    // btls: a send refused with EAGAIN is retried with the identical buffer
    // until accepted (C02's recorded finding about OpenSSL's pending record is
    // not this property's business)
    bool t_refused = false, p_refused = false;
    uint32_t t_ref_tag = 0, t_ref_len = 0, p_ref_tag = 0, p_ref_len = 0;
    int inj_pending = 0; // errno of the armed fault (0 = none)
    // Run one API call on T through the oracle.
    Outcome tcall(int kind, uint32_t tag, uint32_t len)
    {
        if (T.closed) return Outcome::pass();
        int hits0 = sh_io_fault_hits();
        // judge() needs inj_errno as soon as the fault has hit, including for
        // the very call in which it hits: set it optimistically, undo if the
        // fault did not hit in this call (then a terminal report in this call is
        // not justified by the injection).
        bool armed = inj_pending && !inj_errno;
        if (armed) inj_errno = inj_pending;
        int64_t pend = 0;
        if (!bs && ready_T && term == NONE) pend = x_cnt(T, "xcm.from_app_msgs") - x_cnt(T, "xcm.to_lower_msgs");
        uint8_t *buf = nullptr;
        int rc = 0, e = 0;
        size_t cap = 0;
        errno = 0;
        if (kind == OP_SEND) {
            if (sc.tp == BTLS && t_refused) { tag = t_ref_tag; len = t_ref_len; count("btls-identical-retry"); }
            buf = (uint8_t *)malloc(len ? len : 1);
            prf_fill(tag, buf, len);
            rc = x_send(T, buf, len);
            e = errno;
            if (sc.tp == BTLS) {
                t_refused = rc < 0 && e == EAGAIN;
                if (t_refused) { t_ref_tag = tag; t_ref_len = len; size_t mv = std::min<size_t>(t2p.moved, len); t2p.pending.assign((const char *)buf + mv, len - mv); }
                else if (rc > 0) t2p.pending.clear(); // a retry that fails may still have emitted the pending record
            }
        } else if (kind == OP_RECV) {
            cap = len ? len : 1;
            buf = (uint8_t *)malloc(cap);
            rc = x_receive(T, buf, cap);
            e = errno;
        } else {
            rc = x_finish(T);
            e = errno;
        }
        bool hit = sh_io_fault_hits() > hits0;
        if (armed && !hit) inj_errno = 0;
        c.log("T %s(%u) -> %d %s%s", op_name(kind), len, rc, rc < 0 ? errname(e) : "", hit ? "   [injected fault hit in this call]" : "");
        Outcome o = judge(kind, tag, len, cap, buf, rc, e, hit, pend);
        free(buf);
        return o;
    }
};

const int SEND_ERRNOS[] = {ECONNRESET, ETIMEDOUT, EHOSTUNREACH, ENETUNREACH, EPIPE};
const int RECV_ERRNOS[] = {ECONNRESET, ETIMEDOUT, EHOSTUNREACH, ENETUNREACH};
const int CONN_ERRNOS[] = {ECONNREFUSED, ETIMEDOUT, EHOSTUNREACH, ENETUNREACH, ECONNRESET};

uint32_t msg_len(Dec &d, bool bs)
{
    static const int B[] = {1, 2, 3, 4, 5, 100, 255, 4096, 16380, 16384, 16385, 40000, 65535};
    if (bs) return d.ch(2) ? (uint32_t)d.range(1, 3000) : (uint32_t)d.range(1, 70000);
    switch (d.ch(3)) {
    case 0: return (uint32_t)d.pick(B);
    case 1: return (uint32_t)d.range(1, 64);
    default: return (uint32_t)d.range(1, 65535);
    }
}

class C06 : public Harness {
public:
    const char *property() override { return "C06"; }
    size_t cfg_len() override { return 10; }
    size_t step_len() override { return 5; }
    size_t max_steps() override { return 24; }
    void setup() override { World::get(); }

    Outcome run(const Plan &p, Case &c) override
    {
        Dec cfg(p.cfg);
        Scn sc;
        int mode = (int)cfg.ch(10); // 0-3: A, 4-7: B, 8-9: C
        const char *fm = getenv("VF_MODE");
        if (fm) mode = *fm == 'A' ? 0 : *fm == 'B' ? 4 : 9;
        static const int TCPB[] = {TCP, TLS, BTCP, BTLS, UTLS_TLS, TLS_UTLS, TCP, BTCP};
        static const int ALLT[] = {TCP, TLS, BTCP, BTLS, UTLS_TLS, TLS_UTLS, UX, UXF, UTLS_UX, TCP, BTCP, TLS};
        uint32_t tsel = cfg.raw();
        sc.small = cfg.ch(3) == 0;
        sc.tside = cfg.ch(2);
        uint32_t cutsel = cfg.raw(), budsel = cfg.raw(), budraw = cfg.raw(), cutpos = cfg.raw(), hs = cfg.raw(), csel = cfg.raw();
        if (mode >= 8) return mode_c(c, tsel, cutsel, budsel, budraw, csel);
        sc.tp = mode < 4 ? TCPB[tsel % 8] : ALLT[tsel % 12];
        if (getenv("VF_TP")) sc.tp = atoi(getenv("VF_TP"));
        bool bs = is_bytestream(sc.tp);
        if (!is_tcp_based(sc.tp)) sc.small = false;
        for (auto &s : p.steps) {
            Dec d(s);
            Step st;
            uint32_t k = d.ch(100);
            st.kind = k < 22 ? 0 : k < 44 ? 1 : k < 50 ? 2 : k < 72 ? 3 : k < 86 ? 4 : k < 90 ? 5 : k < 97 ? 6 : 7;
            if (mode >= 4 && st.kind == 6) st.kind = 1;
            st.len = st.kind == 0 || st.kind == 3 ? msg_len(d, bs) : (d.ch(4) == 0 ? (uint32_t)d.range(1, 65535) : 70000);
            if (st.kind != 0 && st.kind != 3) d.raw();
            st.tag = d.raw();
            st.aux = d.raw();
            st.aux2 = d.raw();
            sc.steps.push_back(st);
        }
        c.cls(std::string("tp:") + tp_name(sc.tp));
        if (mode < 4) return mode_a(c, sc);
        return mode_b(c, sc, cutsel, budsel, budraw, cutpos, hs);
    }

    // ---------------------------------------------------------------- mode A
    Outcome mode_a(Case &c, Scn &sc)
    {
        c.cls("A:errno-enumeration");
        uint64_t ns = 0, nr = 0;
        {
            Case quiet;
            quiet.trace_on = false;
            Exec ex(quiet, sc);
            Outcome o = ex.run(Fault(), false, &ns, &nr);
            if (!o.ok) {
                Exec ex2(c, sc);
                Outcome o2 = ex2.run(Fault(), false, nullptr, nullptr);
                return o2.ok ? failf("baseline (fault-free) run failed once: %s", o.msg.c_str()) : o2;
            }
        }
        c.log("scenario on %s%s, T=%s: fault-free run made %lu send() and %lu recv() calls on T's connection",
              tp_name(sc.tp), sc.small ? " (small buffers)" : "", sc.tside ? "accepted" : "connecting", (unsigned long)ns, (unsigned long)nr);
        long cap = getenv("VF_C06_CAP") ? atol(getenv("VF_C06_CAP")) : 60;
        uint64_t runs = 0, hits = 0;
        bool nt = false;
        for (int dir = 0; dir < 2; dir++) {
            uint64_t n = dir == SH_SEND ? ns : nr;
            uint64_t stride = n > (uint64_t)cap ? (n + cap - 1) / cap : 1;
            if (stride > 1) c.cls("A:index-subsampled");
            for (uint64_t idx = 1; idx <= n + 1; idx += (idx <= 8 ? 1 : stride)) {
                const int *errs = dir == SH_SEND ? SEND_ERRNOS : RECV_ERRNOS;
                int ne = dir == SH_SEND ? 5 : 4;
                for (int k = 0; k < ne; k++) {
                    Fault f;
                    f.dir = dir; f.idx = (int)idx; f.err = errs[k];
                    Case sub;
                    sub.trace_on = false;
                    Exec ex(sub, sc);
                    Outcome o = ex.run(f, false, nullptr, nullptr);
                    runs++;
                    if (ex.inj_errno) {
                        hits++;
                        if (ex.fault_hit_in_handshake) { c.cls("A:fault-during-handshake"); nt = true; }
                        if (ex.fault_hit_with_pending) { c.cls("A:fault-with-frame-pending"); nt = true; }
                        if (ex.first_observer == OP_SEND) { c.cls("A:first-observer-send"); nt = true; }
                        if (ex.first_observer == OP_FINISH) { c.cls("A:first-observer-finish"); nt = true; }
                        if (ex.first_observer == 3) { c.cls("A:first-observer-connect/accept"); nt = true; }
                        if (ex.first_observer == OP_RECV) c.cls("A:first-observer-receive");
                    }
                    if (!o.ok) {
                        // re-run with tracing for the report
                        Exec ex2(c, sc);
                        c.log("== failing fault: %s call #%d fails with %s", dir == SH_SEND ? "send()" : "recv()", f.idx, errname(f.err));
                        Outcome o2 = ex2.run(f, false, nullptr, nullptr);
                        count("A:fault_runs", runs);
                        return failf("[fault %s#%d=%s] %s", dir == SH_SEND ? "send" : "recv", f.idx, errname(f.err), (o2.ok ? o.msg : o2.msg).c_str());
                    }
                }
            }
        }
        count("A:scenarios");
        count("A:fault_runs", runs);
        count("A:faults_hit", hits);
        c.log("%lu faulted runs, fault reached in %lu", (unsigned long)runs, (unsigned long)hits);
        c.nt(nt);
        return Outcome::pass();
    }

    // ---------------------------------------------------------------- mode B
    Outcome mode_b(Case &c, Scn &sc, uint32_t cutsel, uint32_t budsel, uint32_t budraw, uint32_t cutpos, uint32_t hs)
    {
        c.cls("B:peer-death-at-offset");
        bool tcpb = is_tcp_based(sc.tp);
        if (!tcpb) {
            sc.cut_kind = cutsel % 3 == 0 ? 4 : 1;
            sc.budget = -1;
        } else {
            sc.cut_kind = cutsel % 4;
            // wire offsets of P's planned frames
            std::vector<long> cand = {0, 1, 2, 3, 4, 5, 6};
            long acc = 0;
            for (auto &st : sc.steps)
                if (st.kind == 3) {
                    long w = is_bytestream(sc.tp) ? st.len : 4 + (long)st.len;
                    if (uses_tls(sc.tp)) w += 22; // record overhead, approximately
                    for (long d : {-1L, 0L, 1L, 2L, 3L, 4L, 5L}) cand.push_back(acc + d), cand.push_back(acc + w + d - 4);
                    cand.push_back(acc + w / 2);
                    acc += w;
                }
            long bmax = acc + 40;
            switch (budsel % 4) {
            case 0: sc.budget = -1; break; // no budget: death between frames
            case 1: sc.budget = std::max(0L, cand[budraw % cand.size()]); break;
            default: sc.budget = (long)(budraw % (uint32_t)(bmax + 1)); break;
            }
            if (uses_tls(sc.tp) && hs % 4 == 0) {
                sc.hs_budget = (long)(budraw % 3000);
                c.cls("B:cut-during-tls-handshake");
            }
        }
        sc.cut_at = sc.steps.empty() ? 0 : cutpos % (sc.steps.size() + 1);
        sc.recv_only_after_cut = (hs >> 3) % 2 == 1;
        if (sc.recv_only_after_cut) c.cls("B:receive-only-after-the-cut");
        static const char *CK[] = {"FIN", "close", "lift+close", "RST", "close-with-unread"};
        c.cls(std::string("B:cut=") + CK[sc.cut_kind]);
        c.log("%s%s T=%s; P may write %ld bytes%s; P dies before step %zu by %s", tp_name(sc.tp), sc.small ? " small-buffers" : "",
              sc.tside ? "accepted" : "connecting", sc.budget, sc.hs_budget >= 0 ? " (handshake budget)" : "", sc.cut_at, CK[sc.cut_kind]);
        if (sc.cut_kind == 4) {
            // make sure P has unread data when it closes: T sends, P does not read
            for (auto &st : sc.steps) if (st.kind == 4) st.kind = 7;
            Step s; s.kind = 0; s.len = 10; s.tag = 4242; s.aux = s.aux2 = 0;
            sc.steps.insert(sc.steps.begin(), s);
            sc.cut_at = std::max<size_t>(sc.cut_at, 1);
        }
        Exec ex(c, sc);
        Ep ba, bb;
        if (uses_tls(sc.tp) && cutsel % 2 == 0) {
            PairOpts po;
            po.tp = sc.tp == BTLS ? BTLS : TLS;
            po.client_tag = 20;
            po.server_conn_tag = 21;
            std::string e2 = make_pair(po, ba, bb);
            VF_CHECK(e2.empty(), "setup: bystander pair: %s", e2.c_str());
            uint8_t tmp[64];
            for (int i = 0; i < 20; i++) { x_receive(ba, tmp, sizeof(tmp)); x_receive(bb, tmp, sizeof(tmp)); }
            ex.by_a = &ba;
            ex.by_b = &bb;
            c.cls("B:bystander-tls-connection");
        }
        Outcome o = ex.run(Fault(), true, nullptr, nullptr);
        x_close(ba);
        x_close(bb);
        bool nt = false;
        if (ex.first_observer == OP_SEND) { c.cls("B:first-observer-send"); nt = true; }
        if (ex.first_observer == OP_FINISH) { c.cls("B:first-observer-finish"); nt = true; }
        if (ex.first_observer == OP_RECV) c.cls("B:first-observer-receive");
        if (sc.hs_budget >= 0) nt = true;
        if (sc.budget >= 0 && tcpb) {
            // was the cut strictly inside a frame?
            uint64_t wire = 0;
            (void)wire;
            size_t acc_msgs = is_bytestream(sc.tp) ? 0 : ex.p2t.msgs.size();
            if (!is_bytestream(sc.tp) && acc_msgs > ex.p2t.delivered) { c.cls("B:incomplete-frame-on-the-wire"); nt = true; }
        }
        if (sc.cut_kind == 4 || sc.cut_kind == 3) nt = true;
        if (ex.term == Exec::NONE) c.cls("B:no-terminal-report-seen");
        if (ex.term == Exec::CLOSED) c.cls("B:term=closed");
        if (ex.term == Exec::BAD) c.cls(std::string("B:term=") + errname(ex.term_errno));
        c.nt(nt);
        // after the peer's death T must have noticed within the tail (3 receives)
        if (o.ok && ex.term == Exec::NONE && !ex.T.s && false) return failf("unreachable");
        return o;
    }

    // ---------------------------------------------------------------- mode C
    Outcome mode_c(Case &c, uint32_t tsel, uint32_t esel, uint32_t how, uint32_t delays, uint32_t tailsel)
    {
        c.cls("C:failed-establishment");
        static const int TPS[] = {TCP, TLS, BTCP, BTLS, UTLS_TLS};
        int tp = TPS[tsel % 5];
        int err = CONN_ERRNOS[esel % 5];
        int variant = how % 4; // 0 immediate connect() failure, 1/2 status probe failure after delays, 3 really closed port
        bool blocking = (how / 4) % 4 == 0;
        sh_reset();
        World &w = World::get();
        std::string e2;
        Server &sv = w.server(tp, false, e2);
        VF_CHECK(sv.ok, "setup: %s", e2.c_str());
        w.drain_accept_queue(sv);
        std::string addr = sv.connect_addr;
        if (variant == 3) {
            int s = socket(AF_INET, SOCK_STREAM, 0);
            struct sockaddr_in a;
            memset(&a, 0, sizeof(a));
            a.sin_family = AF_INET;
            a.sin_addr.s_addr = htonl(INADDR_LOOPBACK);
            bind(s, (struct sockaddr *)&a, sizeof(a));
            socklen_t l = sizeof(a);
            getsockname(s, (struct sockaddr *)&a, &l);
            close(s);
            addr = World::client_proto(tp) + ":127.0.0.1:" + std::to_string(ntohs(a.sin_port));
            err = ECONNREFUSED;
        }
        Ep T;
        T.tag = 2;
        T.blocking = blocking;
        int nd = 0;
        if (variant == 0) sh_fail_next_connect(T.tag, err);
        else if (variant < 3) {
            nd = (int)(delays % 6);
            for (int i = 0; i < nd; i++) sh_push(T.tag, SH_CONN, SH_DELAY, 0);
            sh_push(T.tag, SH_CONN, SH_FAIL, err);
        }
        c.log("%s connect to %s (%s): %s -> %s", blocking ? "blocking" : "non-blocking", addr.c_str(), tp_name(tp),
              variant == 0 ? "connect() fails at once" : variant == 3 ? "nothing listens on the port" : "the connection attempt fails after delays", errname(err));
        c.cls(std::string("C:") + (variant == 0 ? "immediate" : variant == 3 ? "real-refusal" : "deferred") + (blocking ? "/blocking" : "/nonblocking"));
        struct xcm_attr_map *a = xcm_attr_map_create();
        xcm_attr_map_add_bool(a, "xcm.blocking", blocking);
        if (is_bytestream(tp)) xcm_attr_map_add_str(a, "xcm.service", "bytestream");
        errno = 0;
        T.s = call(T, [&] { return xcm_connect_a(addr.c_str(), a); });
        int e = errno;
        xcm_attr_map_destroy(a);
        if (!T.s) {
            c.log("xcm_connect_a -> NULL %s", errname(e));
            VF_CHECK(e == err, "C06: establishment failed with %s but xcm_connect_a reported %s", errname(err), errname(e));
            c.nt(variant != 3);
            return Outcome::pass();
        }
        T.closed = false;
        VF_CHECK(!blocking, "C06: blocking xcm_connect_a returned a socket although establishment failed with %s", errname(err));
        if (blocking) { x_close(T); return Outcome::pass(); }
        // the first call with a definite result reports err; sticky afterwards
        bool seen = false;
        uint8_t buf[64];
        int observer = -1;
        for (int i = 0; i < 400; i++) {
            int kind = seen ? (int)((tailsel >> (2 * (i % 12))) % 3) : (int)((tailsel >> (2 * (i % 3))) % 3);
            int rc;
            errno = 0;
            if (kind == OP_SEND) rc = x_send(T, "x", 1);
            else if (kind == OP_RECV) rc = x_receive(T, buf, sizeof(buf));
            else rc = x_finish(T);
            e = errno;
            if (i < 40) c.log("T %s -> %d %s", op_name(kind), rc, rc < 0 ? errname(e) : "");
            bool success = kind == OP_RECV ? rc > 0 : kind == OP_SEND ? rc >= 0 : rc == 0;
            // a messaging transport may buffer one message while the attempt is
            // still in progress; it is never delivered
            bool buffered = kind == OP_SEND && rc == 0 && !seen && !is_bytestream(tp);
            if (buffered) c.cls("C:message-buffered-while-connecting");
            if ((success && !buffered) || (kind == OP_RECV && rc == 0)) {
                x_close(T);
                return failf("C06: %s returned %d on a connection whose establishment failed with %s", op_name(kind), rc, errname(err));
            }
            if (buffered) continue;
            if (e == EAGAIN) {
                VF_CHECK(!seen, "C06: %s reported EAGAIN after the connection had failed with %s", op_name(kind), errname(err));
                if (variant == 3) fd_readable(x_fd(T), 5);
                continue;
            }
            VF_CHECK(e == err, "C06: establishment failed with %s but %s reported %s", errname(err), op_name(kind), errname(e));
            if (!seen) { seen = true; observer = kind; i = 400 - 10; }
        }
        VF_CHECK(seen, "C06: the failed establishment (%s) was never reported", errname(err));
        c.cls(std::string("C:first-observer-") + op_name(observer));
        c.nt(true);
        x_close(T);
        return Outcome::pass();
    }
};

} // namespace

namespace vf {
Harness *make_harness() { return new C06(); }
}
