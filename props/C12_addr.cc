// C12 — address strings: make and parse are exact inverses with honest bounds.
// Oracle: independent reference codec with a three-valued verdict
// (must-accept / must-reject / unspecified), exact-size heap buffers under
// ASan, round trips.
#include "vf.h"

#include <arpa/inet.h>
#include <string>
#include <vector>

extern "C" {
#include "xcm_addr.h"
int btcp_to_tcp(const char *, char *, size_t);
int tcp_to_btcp(const char *, char *, size_t);
int btcp_to_btls(const char *, char *, size_t);
int btls_to_btcp(const char *, char *, size_t);
int btls_to_tls(const char *, char *, size_t);
int tls_to_btls(const char *, char *, size_t);
int utls_to_tls(const char *, char *, size_t);
int tls_to_utls(const char *, char *, size_t);
}

using namespace vf;

namespace {

const char *HP_PROTOS[6] = {"utls", "tls", "tcp", "sctp", "btcp", "btls"};
typedef int (*make_fn)(const struct xcm_addr_host *, unsigned short, char *, size_t);
typedef int (*parse_fn)(const char *, struct xcm_addr_host *, uint16_t *);
make_fn HP_MAKE[6] = {xcm_addr_make_utls, xcm_addr_make_tls, xcm_addr_make_tcp,
                      xcm_addr_make_sctp, xcm_addr_make_btcp, xcm_addr_make_btls};
parse_fn HP_PARSE[6] = {xcm_addr_parse_utls, xcm_addr_parse_tls, xcm_addr_parse_tcp,
                        xcm_addr_parse_sctp, xcm_addr_parse_btcp, xcm_addr_parse_btls};
typedef int (*make6_fn)(const struct xcm_addr_ip *, unsigned short, char *, size_t);
typedef int (*parse6_fn)(const char *, struct xcm_addr_ip *, uint16_t *);
const char *C6_PROTOS[4] = {"utls", "tls", "tcp", "sctp"};
make6_fn C6_MAKE[4] = {xcm_addr_utls6_make, xcm_addr_tls6_make, xcm_addr_tcp6_make,
                       xcm_addr_sctp6_make};
parse6_fn C6_PARSE[4] = {xcm_addr_utls6_parse, xcm_addr_tls6_parse,
                         xcm_addr_tcp6_parse, xcm_addr_sctp6_parse};
typedef int (*make4_fn)(in_addr_t, unsigned short, char *, size_t);
typedef int (*parse4_fn)(const char *, in_addr_t *, uint16_t *);
const char *C4_PROTOS[3] = {"utls", "tls", "tcp"};
make4_fn C4_MAKE[3] = {xcm_addr_utls_make, xcm_addr_tls_make, xcm_addr_tcp_make};
parse4_fn C4_PARSE[3] = {xcm_addr_utls_parse, xcm_addr_tls_parse, xcm_addr_tcp_parse};

typedef int (*conv_fn)(const char *, char *, size_t);
struct Conv { const char *from, *to; conv_fn fn; };
const Conv CONVS[8] = {
    {"btcp", "tcp", btcp_to_tcp}, {"tcp", "btcp", tcp_to_btcp},
    {"btcp", "btls", btcp_to_btls}, {"btls", "btcp", btls_to_btcp},
    {"btls", "tls", btls_to_tls}, {"tls", "btls", tls_to_btls},
    {"utls", "tls", utls_to_tls}, {"tls", "utls", tls_to_utls}};

// ---------------------------------------------------------------- reference
bool is_ws(unsigned char c) { return c == ' ' || (c >= 9 && c <= 13); }
bool has_ws(const std::string &s)
{
    for (unsigned char c : s) if (is_ws(c)) return true;
    return false;
}
bool all_digits(const std::string &s)
{
    if (s.empty()) return false;
    for (unsigned char c : s) if (c < '0' || c > '9') return false;
    return true;
}

enum Verdict { OK, REJECT, UNSPEC };

struct RefHost {
    Verdict v = REJECT;
    int kind = 0; // 0 name, 4 ip4, 6 ip6
    uint8_t ip[16] = {0};
    std::string name;
};

// strict dotted quad, no leading zeros
bool ref_ip4(const std::string &s, uint8_t out[4])
{
    size_t i = 0;
    for (int part = 0; part < 4; part++) {
        if (i >= s.size()) return false;
        size_t j = i;
        unsigned v = 0;
        while (j < s.size() && s[j] >= '0' && s[j] <= '9' && j - i < 4) {
            v = v * 10 + (s[j] - '0');
            j++;
        }
        if (j == i || j - i > 3 || v > 255) return false;
        if (j - i > 1 && s[i] == '0') return false;
        out[part] = (uint8_t)v;
        i = j;
        if (part < 3) {
            if (i >= s.size() || s[i] != '.') return false;
            i++;
        }
    }
    return i == s.size();
}

bool name_char(unsigned char c)
{
    return (c >= 'a' && c <= 'z') || (c >= 'A' && c <= 'Z') || (c >= '0' && c <= '9') ||
           c == '-';
}

RefHost ref_host(const std::string &h)
{
    RefHost r;
    if (h.empty()) return r;
    if (h[0] == '[') {
        if (h.size() < 2 || h.back() != ']') return r;
        std::string in = h.substr(1, h.size() - 2);
        r.kind = 6;
        if (in == "*") { r.v = OK; return r; }
        struct in6_addr a;
        // inet_pton is the trusted base for IPv6 text (libc, not XCM)
        if (in.find('\0') == std::string::npos && inet_pton(AF_INET6, in.c_str(), &a) == 1) {
            memcpy(r.ip, a.s6_addr, 16);
            r.v = OK;
        }
        return r;
    }
    if (h == "*") { r.v = OK; r.kind = 4; return r; }
    uint8_t q[4];
    if (ref_ip4(h, q)) { r.v = OK; r.kind = 4; memcpy(r.ip, q, 4); return r; }
    // DNS name
    r.kind = 0;
    r.name = h;
    if (h.size() > 253) return r; // REJECT
    bool only_digits_dots = true, strict = true;
    size_t label = 0;
    for (size_t i = 0; i < h.size(); i++) {
        unsigned char c = h[i];
        if (c == '.') {
            if (label == 0) strict = false;
            label = 0;
        } else if (name_char(c)) {
            label++;
            if (c < '0' || c > '9') only_digits_dots = false;
        } else
            return r; // illegal character: REJECT
    }
    if (label == 0) strict = false; // trailing dot
    if (!strict || only_digits_dots) r.v = UNSPEC;
    else r.v = OK;
    return r;
}

struct RefPort { Verdict v = REJECT; long value = -1; bool value_known = false; };

RefPort ref_port(const std::string &p)
{
    RefPort r;
    if (p.empty()) return r;
    std::string d = p;
    bool sign = false, neg = false;
    if (d[0] == '+' || d[0] == '-') { sign = true; neg = d[0] == '-'; d = d.substr(1); }
    if (!all_digits(d)) return r;
    size_t nz = 0;
    while (nz + 1 < d.size() && d[nz] == '0') nz++;
    std::string core = d.substr(nz);
    if (core.size() > 5) return r;
    long v = atol(core.c_str());
    if (v > 65535) return r;
    if (neg && v != 0) return r;
    r.value = v;
    r.value_known = true;
    r.v = (sign || nz > 0) ? UNSPEC : OK;
    return r;
}

struct RefHP { Verdict v = REJECT; RefHost host; RefPort port; };

// typed host/port parser for protocol `proto`
RefHP ref_parse_hp(const std::string &s, const std::string &proto)
{
    RefHP r;
    size_t c = s.find(':');
    if (c == std::string::npos) return r;
    if (s.substr(0, c) != proto) return r;
    if (has_ws(s)) return r;
    std::string rest = s.substr(c + 1);
    size_t pc = rest.rfind(':');
    if (pc == std::string::npos) return r;
    r.host = ref_host(rest.substr(0, pc));
    r.port = ref_port(rest.substr(pc + 1));
    if (r.host.v == REJECT || r.port.v == REJECT) r.v = REJECT;
    else if (r.host.v == UNSPEC || r.port.v == UNSPEC) r.v = UNSPEC;
    else r.v = OK;
    return r;
}

struct RefUx { Verdict v = REJECT; std::string name; };
RefUx ref_parse_ux(const std::string &s, const std::string &proto)
{
    RefUx r;
    size_t c = s.find(':');
    if (c == std::string::npos) return r;
    if (s.substr(0, c) != proto) return r;
    r.name = s.substr(c + 1);
    if (r.name.empty() || r.name.size() > 107) return r;
    r.v = has_ws(s) ? UNSPEC : OK;
    return r;
}

// exact-size heap copy so that ASan guards both ends
struct HeapStr {
    char *p;
    explicit HeapStr(const std::string &s)
    {
        p = (char *)malloc(s.size() + 1);
        memcpy(p, s.c_str(), s.size() + 1);
    }
    ~HeapStr() { free(p); }
};

struct OutBuf {
    char *p;
    size_t cap;
    explicit OutBuf(size_t c) : cap(c)
    {
        p = (char *)malloc(c);
        if (c) memset(p, 0xA5, c);
    }
    ~OutBuf() { free(p); }
    // length of NUL terminated string inside, or -1
    long slen() const
    {
        for (size_t i = 0; i < cap; i++) if (p[i] == 0) return (long)i;
        return -1;
    }
};

std::string printable(const std::string &s)
{
    std::string o;
    for (unsigned char c : s.substr(0, 120)) {
        if (c >= 0x21 && c < 0x7f && c != '\\') o += (char)c;
        else { char b[8]; snprintf(b, sizeof(b), "\\x%02x", c); o += b; }
    }
    if (s.size() > 120) o += "...(" + std::to_string(s.size()) + ")";
    return o;
}

// ------------------------------------------------------------------ makers
Outcome check_make_result(const char *what, int rc, int err, const OutBuf &b,
                          bool must_fail_einval, const std::string *expected,
                          size_t exp_len)
{
    // exp_len: length of the complete address (without NUL)
    if (must_fail_einval) {
        VF_CHECK(rc == -1 && err == EINVAL, "%s: expected -1/EINVAL, got rc=%d errno=%s",
                 what, rc, errname(err));
        return Outcome::pass();
    }
    if (b.cap >= exp_len + 1) {
        VF_CHECK(rc == 0, "%s: capacity %zu fits address of length %zu but rc=%d errno=%s",
                 what, b.cap, exp_len, rc, errname(err));
        long l = b.slen();
        VF_CHECK(l == (long)exp_len, "%s: rc=0 but stored string length %ld != %zu", what, l,
                 exp_len);
        if (expected)
            VF_CHECK(*expected == std::string(b.p), "%s: got '%s' expected '%s'", what,
                     printable(b.p).c_str(), printable(*expected).c_str());
    } else {
        VF_CHECK(rc == -1,
                 "%s: TRUNCATION reported as success: capacity %zu < needed %zu, rc=%d, buffer "
                 "holds '%s'",
                 what, b.cap, exp_len + 1, rc,
                 b.slen() >= 0 ? printable(std::string(b.p)).c_str() : "(unterminated)");
        VF_CHECK(err == ENAMETOOLONG || err == EINVAL,
                 "%s: too small a buffer gives errno %s (want ENAMETOOLONG/EINVAL)", what,
                 errname(err));
    }
    return Outcome::pass();
}

std::string ip4_text(const uint8_t ip[4])
{
    char b[32];
    snprintf(b, sizeof(b), "%u.%u.%u.%u", ip[0], ip[1], ip[2], ip[3]);
    return b;
}

size_t pick_capacity(Dec &d, size_t L)
{
    switch (d.ch(8)) {
    case 0: return L;         // exactly one short (no room for NUL)
    case 1: return L + 1;     // exact fit
    case 2: return L ? L - 1 : 0;
    case 3: return 0;
    case 4: return 1;
    case 5: return L + 2;
    default: return (size_t)d.range(0, (int64_t)L + 2);
    }
}

std::string gen_name(Dec &d)
{
    static const int LENS[] = {1, 2, 3, 63, 64, 127, 252, 253};
    size_t len = d.ch(3) == 0 ? (size_t)d.pick(LENS) : (size_t)d.range(1, 253);
    uint32_t tag = d.raw();
    uint32_t dot_every = (uint32_t)d.range(2, 64);
    static const char CS[] = "abcdefghijklmnopqrstuvwxyzABCDEFGHIJKLMNOPQRSTUVWXYZ0123456789-";
    std::string s;
    for (size_t i = 0; i < len; i++) {
        bool can_dot = i > 0 && i + 1 < len && s.back() != '.';
        if (can_dot && (i % dot_every) == dot_every - 1) s += '.';
        else if (i == 0) s += (char)('a' + prf_byte(tag, i) % 26);
        else s += CS[prf_byte(tag, (uint32_t)i) % (sizeof(CS) - 1)];
    }
    return s;
}

void gen_ip6(Dec &d, uint8_t ip[16])
{
    uint32_t tag = d.raw();
    switch (d.ch(7)) {
    case 0: memset(ip, 0, 16); break;
    case 1: memset(ip, 0, 16); ip[15] = 1; break;
    case 2: memset(ip, 0xff, 16); break;
    case 3: // v4 mapped
        memset(ip, 0, 16); ip[10] = ip[11] = 0xff; prf_fill(tag, ip + 12, 4); break;
    case 4: // link local
        prf_fill(tag, ip, 16); ip[0] = 0xfe; ip[1] = 0x80; break;
    case 5: { // random with zero runs
        prf_fill(tag, ip, 16);
        int a = prf_byte(tag, 100) % 8, n = prf_byte(tag, 101) % 8;
        for (int i = a; i < a + n && i < 8; i++) ip[2 * i] = ip[2 * i + 1] = 0;
        break;
    }
    default: prf_fill(tag, ip, 16); // every group 4 hex digits likely
        for (int i = 0; i < 16; i += 2) ip[i] |= 0x10;
    }
}

void gen_ip4(Dec &d, uint8_t ip[4])
{
    uint32_t v = d.raw();
    switch (d.ch(5)) {
    case 0: memset(ip, 0, 4); break;
    case 1: ip[0] = 127; ip[1] = ip[2] = 0; ip[3] = 1; break;
    case 2: memset(ip, 255, 4); break;
    case 3: ip[0] = ip[1] = ip[2] = ip[3] = 100 + v % 156; break;
    default: memcpy(ip, &v, 4);
    }
}

uint16_t gen_port(Dec &d)
{
    static const int PORTS[] = {0, 1, 9, 10, 99, 100, 999, 1000, 9999, 10000,
                                65535, 65534, 80, 4711, 32768};
    return d.ch(2) ? (uint16_t)d.pick(PORTS) : (uint16_t)d.range(0, 65535);
}

Outcome verify_host_roundtrip(const char *what, int prc, int perr,
                              const struct xcm_addr_host &got, uint16_t gport, int kind,
                              const uint8_t *ip, const std::string &name, uint16_t port)
{
    VF_CHECK(prc == 0, "%s: parser rejects the address just made (errno %s)", what,
             errname(perr));
    VF_CHECK(gport == htons(port), "%s: port %u came back as %u", what, port, ntohs(gport));
    if (kind == 0) {
        VF_CHECK(got.type == xcm_addr_type_name && name == got.name,
                 "%s: name came back differently", what);
    } else if (kind == 4) {
        VF_CHECK(got.type == xcm_addr_type_ip && got.ip.family == AF_INET &&
                     memcmp(&got.ip.addr.ip4, ip, 4) == 0,
                 "%s: IPv4 came back differently", what);
    } else {
        VF_CHECK(got.type == xcm_addr_type_ip && got.ip.family == AF_INET6 &&
                     memcmp(got.ip.addr.ip6, ip, 16) == 0,
                 "%s: IPv6 came back differently", what);
    }
    return Outcome::pass();
}

// One make probe of a host/port address through API entry `api`
//  api 0..5 modern, 6..9 compat ip6-struct, 10..12 compat ip4
Outcome make_hp(Case &c, int api, int kind, const uint8_t *ip, const std::string &name,
                uint16_t port, long cap_or_neg, Dec *d)
{
    const char *proto = api < 6 ? HP_PROTOS[api] : api < 10 ? C6_PROTOS[api - 6] : C4_PROTOS[api - 10];
    std::string exp_exact;
    bool have_exact = false;
    size_t L;
    char portbuf[16];
    snprintf(portbuf, sizeof(portbuf), "%u", port);
    if (kind == 0) {
        exp_exact = std::string(proto) + ":" + name + ":" + portbuf;
        have_exact = true; L = exp_exact.size();
    } else if (kind == 4) {
        exp_exact = std::string(proto) + ":" + ip4_text(ip) + ":" + portbuf;
        have_exact = true; L = exp_exact.size();
    } else {
        // IPv6 text form is whatever libc prints; length needed for bounds
        char t[INET6_ADDRSTRLEN];
        inet_ntop(AF_INET6, ip, t, sizeof(t));
        exp_exact = std::string(proto) + ":[" + t + "]:" + portbuf;
        L = exp_exact.size();
        have_exact = false; // judged by round trip + shape, not by text equality
    }
    size_t cap = cap_or_neg >= 0 ? (size_t)cap_or_neg : pick_capacity(*d, L);
    OutBuf b(cap);
    struct xcm_addr_host host;
    memset(&host, 0, sizeof(host));
    if (kind == 0) { host.type = xcm_addr_type_name; strcpy(host.name, name.c_str()); }
    else {
        host.type = xcm_addr_type_ip;
        host.ip.family = kind == 4 ? AF_INET : AF_INET6;
        if (kind == 4) memcpy(&host.ip.addr.ip4, ip, 4);
        else memcpy(host.ip.addr.ip6, ip, 16);
    }
    errno = 0;
    int rc;
    if (api < 6) rc = HP_MAKE[api](&host, htons(port), b.p, cap);
    else if (api < 10) rc = C6_MAKE[api - 6](&host.ip, htons(port), b.p, cap);
    else { in_addr_t a; memcpy(&a, ip, 4); rc = C4_MAKE[api - 10](a, htons(port), b.p, cap); }
    int err = errno;
    char what[160];
    snprintf(what, sizeof(what), "make[%d %s] %s cap=%zu", api, proto,
             printable(exp_exact).substr(0, 80).c_str(), cap);
    if (c.trace_on) c.log("%s -> rc=%d %s", what, rc, rc ? errname(err) : "");
    if (cap <= L) { c.nt(); c.cls("make:capacity<=len"); }
    else c.cls("make:fits");
    Outcome o = check_make_result(what, rc, err, b, false, have_exact ? &exp_exact : nullptr, L);
    if (!o.ok) return o;
    if (rc == 0 && (d != nullptr || cap == L + 1)) {
        std::string made(b.p);
        if (kind == 6) {
            std::string pre = std::string(proto) + ":[";
            VF_CHECK(made.compare(0, pre.size(), pre) == 0 &&
                         made.size() > pre.size() + strlen(portbuf) + 2 &&
                         made.compare(made.size() - strlen(portbuf) - 2, std::string::npos,
                                      std::string("]:") + portbuf) == 0,
                     "%s: IPv6 address not of the form proto:[addr]:port: '%s'", what,
                     printable(made).c_str());
        }
        HeapStr hs(made);
        struct xcm_addr_host got;
        uint16_t gport = 0;
        memset(&got, 0, sizeof(got));
        errno = 0;
        int pidx = -1;
        for (int i = 0; i < 6; i++) if (!strcmp(HP_PROTOS[i], proto)) pidx = i;
        int prc = HP_PARSE[pidx](hs.p, &got, &gport);
        Outcome r = verify_host_roundtrip(what, prc, errno, got, gport, kind, ip, name, port);
        if (!r.ok) return r;
        VF_CHECK(xcm_addr_is_valid(hs.p), "%s: is_valid false on made address", what);
        count("make_roundtrips");
    }
    return Outcome::pass();
}

Outcome make_ux(Case &c, Dec &d)
{
    int api = d.ch(3); // 0 ux, 1 uxf, 2 compat ux
    const char *proto = api == 1 ? "uxf" : "ux";
    static const int LENS[] = {0, 1, 2, 105, 106, 107, 108, 109, 200};
    size_t len = d.ch(2) ? (size_t)d.pick(LENS) : (size_t)d.range(1, 120);
    uint32_t tag = d.raw();
    int charset = d.ch(3);
    std::string name;
    for (size_t i = 0; i < len; i++) {
        unsigned char ch = prf_byte(tag, (uint32_t)i);
        if (charset == 0) ch = 'a' + ch % 26;
        else if (charset == 1) ch = 0x21 + ch % (0x7f - 0x21);
        else { if (ch == 0 || is_ws(ch)) ch = '/'; }
        name += (char)ch;
    }
    std::string exp = std::string(proto) + ":" + name;
    size_t L = exp.size();
    size_t cap = pick_capacity(d, L);
    OutBuf b(cap);
    HeapStr hn(name);
    errno = 0;
    int rc = api == 0 ? xcm_addr_make_ux(hn.p, b.p, cap)
             : api == 1 ? xcm_addr_make_uxf(hn.p, b.p, cap)
                        : xcm_addr_ux_make(hn.p, b.p, cap);
    int err = errno;
    char what[200];
    snprintf(what, sizeof(what), "make_%s(len %zu) cap=%zu", proto, len, cap);
    c.log("%s name='%s' -> rc=%d %s", what, printable(name).substr(0, 40).c_str(), rc,
          rc ? errname(err) : "");
    if (cap <= L || len > 107) { c.nt(); c.cls(len > 107 ? "make_ux:name>limit" : "make:capacity<=len"); }
    Outcome o = check_make_result(what, rc, err, b, len > 107, &exp, L);
    if (!o.ok) return o;
    if (rc == 0 && len > 0) {
        HeapStr hs(exp);
        size_t cap2 = pick_capacity(d, len);
        OutBuf nb(cap2);
        errno = 0;
        int prc = api == 0 ? xcm_addr_parse_ux(hs.p, nb.p, cap2)
                  : api == 1 ? xcm_addr_parse_uxf(hs.p, nb.p, cap2)
                             : xcm_addr_ux_parse(hs.p, nb.p, cap2);
        int perr = errno;
        if (cap2 > len) {
            VF_CHECK(prc == 0 && nb.slen() == (long)len && name == nb.p,
                     "%s: parse of made address rc=%d errno=%s does not give the name back",
                     what, prc, errname(perr));
            count("make_roundtrips");
        } else {
            VF_CHECK(prc == -1 && (perr == ENAMETOOLONG || perr == EINVAL),
                     "%s: parse into capacity %zu (name %zu) rc=%d errno=%s", what, cap2, len,
                     prc, errname(perr));
            c.nt();
        }
        VF_CHECK(xcm_addr_is_valid(hs.p), "%s: is_valid false on made address", what);
    }
    return Outcome::pass();
}

// ----------------------------------------------------------------- parsers
std::string gen_parse_input(Dec &d, Case &c)
{
    static const char *PROTOS[] = {"utls", "tls", "tcp", "sctp", "btcp", "btls", "ux", "uxf",
                                   "foo", "", "TCP", "tcpx", "t"};
    std::string s;
    int tmpl = d.ch(10);
    if (tmpl <= 5) { // host:port family
        std::string proto = d.ch(6) ? PROTOS[d.ch(6)] : PROTOS[d.ch(13)];
        std::string host;
        switch (d.ch(9)) {
        case 0: { uint8_t ip[4]; gen_ip4(d, ip); host = ip4_text(ip); break; }
        case 1: {
            uint8_t ip[16]; gen_ip6(d, ip); char t[64];
            inet_ntop(AF_INET6, ip, t, sizeof(t)); host = std::string("[") + t + "]"; break;
        }
        case 2: host = "*"; break;
        case 3: host = "[*]"; break;
        case 4: host = gen_name(d); break;
        case 5: { // near-miss hosts
            static const char *H[] = {"", "[", "]", "[]", "[::1", "::1", "[::1]]", "[[::1]",
                                      "1.2.3", "1.2.3.4.5", "256.1.1.1", "01.2.3.4", "a..b",
                                      ".a", "a.", "a.b.", "-", "a_b", "[1.2.3.4]", "[::g]",
                                      "[*", "**", "[ ::1]", "a b", "1.2.3.4 ", "[::ffff:1.2.3.4]",
                                      "[fe80::1%lo]", "xn--bcher-kva.example"};
            host = d.pick(H); break;
        }
        case 6: host = std::string((size_t)d.range(250, 256), 'a'); break;
        case 7: host = std::string((size_t)d.range(508, 516), 'b'); break;
        default: {
            std::string n = gen_name(d);
            host = n.substr(0, 200) + "." + n.substr(0, (size_t)d.range(40, 60));
        }
        }
        std::string port;
        switch (d.ch(4)) {
        case 0: case 1: port = std::to_string(gen_port(d)); break;
        case 2: {
            static const char *P[] = {"65536", "4294967376", "4294967296", "99999999999999999999",
                                      "18446744073709551696", "-1", "", "+80", "080", "0x50",
                                      "80 ", " 80", "8 0", "80a", "a", "-0", "00000", "000080",
                                      "65535", "65537", "100000", "-65536", "+", "-", "1e3",
                                      "9223372036854775888", "٣"};
            port = d.pick(P); break;
        }
        default: port = std::to_string((unsigned long long)d.raw() * (d.ch(3) ? 1 : 70000));
        }
        s = proto + ":" + host + ":" + port;
        if (d.ch(12) == 0) s = proto + ":" + host; // no port separator
    } else if (tmpl <= 7) {
        std::string proto = d.ch(4) ? (d.flag() ? "ux" : "uxf") : PROTOS[d.ch(13)];
        static const int LENS[] = {0, 1, 106, 107, 108, 109, 300, 575, 576, 580};
        size_t len = d.ch(2) ? (size_t)d.pick(LENS) : (size_t)d.range(1, 120);
        uint32_t tag = d.raw();
        std::string name;
        int charset = d.ch(3);
        for (size_t i = 0; i < len; i++) {
            unsigned char ch = prf_byte(tag, (uint32_t)i);
            if (charset == 0) ch = 'a' + ch % 26;
            else if (charset == 1) { if (ch == 0) ch = ':'; }
            else ch = 0x21 + ch % (0x7f - 0x21);
            name += (char)ch;
        }
        s = proto + ":" + name;
    } else { // raw bytes from the tape
        size_t n = (size_t)d.range(0, 40);
        for (size_t i = 0; i < n; i++) {
            uint32_t v = d.raw();
            static const char ALPHA[] = ":[]*.-0123456789abctlsuxf \t";
            char ch = (v & 0x100) ? ALPHA[v % (sizeof(ALPHA) - 1)] : (char)(v & 0xff);
            if (ch == 0) break;
            s += ch;
        }
    }
    // mutations
    int nmut = d.ch(4) == 0 ? (int)d.range(1, 3) : 0;
    for (int m = 0; m < nmut; m++) {
        size_t pos = s.empty() ? 0 : d.raw() % (s.size() + 1);
        uint32_t v = d.raw();
        static const char MC[] = ":[]*. -+0a9\t%/";
        char ch = MC[v % (sizeof(MC) - 1)];
        switch (d.ch(5)) {
        case 0: if (pos < s.size()) s.erase(pos, 1); break;
        case 1: s.insert(pos, 1, ch); break;
        case 2: if (pos < s.size()) s[pos] = ch; break;
        case 3: s.insert(pos, std::string((size_t)(v % 600), ch == ' ' ? 'x' : ch)); break;
        default: if (pos < s.size()) s = s.substr(0, pos);
        }
        c.cls("parse:mutated");
    }
    size_t z = s.find('\0');
    if (z != std::string::npos) s = s.substr(0, z);
    return s;
}

const char *KNOWN[8] = {"utls", "tls", "tcp", "sctp", "btcp", "btls", "ux", "uxf"};

Outcome check_parse_string(Case &c, const std::string &s, Dec *d)
{
    HeapStr hs(s);
    std::string ps = printable(s);
    if (c.trace_on) c.log("parse '%s'", ps.c_str());
    size_t colon = s.find(':');
    std::string sproto = colon == std::string::npos ? "" : s.substr(0, colon);
    int own_rc = -2; // result of the parser of the string's own protocol
    bool any_nt = false;
    // typed host/port parsers
    for (int i = 0; i < 6; i++) {
        RefHP ref = ref_parse_hp(s, HP_PROTOS[i]);
        struct xcm_addr_host *got = (struct xcm_addr_host *)malloc(sizeof(*got));
        uint16_t *gport = (uint16_t *)malloc(sizeof(uint16_t));
        memset(got, 0x5a, sizeof(*got));
        *gport = 0x5a5a;
        errno = 0;
        int rc = HP_PARSE[i](hs.p, got, gport);
        int err = errno;
        Outcome o = Outcome::pass();
        do {
            if (rc != 0 && rc != -1) { o = failf("parse_%s('%s') returned %d", HP_PROTOS[i], ps.c_str(), rc); break; }
            if (sproto == HP_PROTOS[i]) own_rc = rc;
            if (ref.v == OK && rc != 0) {
                o = failf("parse_%s rejects documented-valid address '%s' (errno %s)",
                          HP_PROTOS[i], ps.c_str(), errname(err));
                break;
            }
            if (ref.v == REJECT && rc == 0) {
                o = failf("parse_%s ACCEPTS '%s' which is outside the documented syntax "
                          "(port -> %u, host type %d)",
                          HP_PROTOS[i], ps.c_str(), ntohs(*gport), (int)got->type);
                break;
            }
            if (rc == -1 && err != EINVAL && err != ENAMETOOLONG) {
                o = failf("parse_%s('%s') errno %s", HP_PROTOS[i], ps.c_str(), errname(err));
                break;
            }
            if (rc == 0) {
                // whatever was accepted must carry the components of the text
                if (ref.port.value_known && *gport != htons((uint16_t)ref.port.value)) {
                    o = failf("parse_%s('%s'): port %u, text says %ld", HP_PROTOS[i], ps.c_str(),
                              ntohs(*gport), ref.port.value);
                    break;
                }
                if (!ref.port.value_known) {
                    o = failf("parse_%s('%s'): accepted a port that is not a number in range",
                              HP_PROTOS[i], ps.c_str());
                    break;
                }
                const RefHost &h = ref.host;
                bool okh;
                if (h.kind == 4 && h.v == OK)
                    okh = got->type == xcm_addr_type_ip && got->ip.family == AF_INET &&
                          memcmp(&got->ip.addr.ip4, h.ip, 4) == 0;
                else if (h.kind == 6 && h.v == OK)
                    okh = got->type == xcm_addr_type_ip && got->ip.family == AF_INET6 &&
                          memcmp(got->ip.addr.ip6, h.ip, 16) == 0;
                else
                    okh = got->type == xcm_addr_type_name && h.name.size() <= 253 &&
                          h.name == got->name;
                if (!okh) { o = failf("parse_%s('%s'): host component differs from the text", HP_PROTOS[i], ps.c_str()); break; }
                count("parse_accepts");
            }
            if (ref.v == UNSPEC) count(rc == 0 ? "unspecified_accepted" : "unspecified_rejected");
        } while (0);
        // compat variants must agree with the modern parser
        if (o.ok && i < 4) {
            struct xcm_addr_ip *ip6 = (struct xcm_addr_ip *)malloc(sizeof(*ip6));
            uint16_t p6 = 0;
            errno = 0;
            int rc6 = C6_PARSE[i](hs.p, ip6, &p6);
            bool expect6 = rc == 0 && got->type == xcm_addr_type_ip;
            if ((rc6 == 0) != expect6)
                o = failf("compat %s6_parse('%s') rc=%d disagrees with parse_%s rc=%d", C6_PROTOS[i], ps.c_str(), rc6, HP_PROTOS[i], rc);
            else if (rc6 == 0 && (p6 != *gport || ip6->family != got->ip.family ||
                                  memcmp(&ip6->addr, &got->ip.addr, ip6->family == AF_INET ? 4 : 16) != 0))
                o = failf("compat %s6_parse('%s') components differ", C6_PROTOS[i], ps.c_str());
            free(ip6);
        }
        if (o.ok && i < 3) {
            in_addr_t *ip4 = (in_addr_t *)malloc(sizeof(in_addr_t));
            uint16_t p4 = 0;
            int rc4 = C4_PARSE[i](hs.p, ip4, &p4);
            bool expect4 = rc == 0 && got->type == xcm_addr_type_ip && got->ip.family == AF_INET;
            if ((rc4 == 0) != expect4)
                o = failf("compat %s_parse('%s') rc=%d disagrees", C4_PROTOS[i], ps.c_str(), rc4);
            else if (rc4 == 0 && (p4 != *gport || *ip4 != got->ip.addr.ip4))
                o = failf("compat %s_parse('%s') components differ", C4_PROTOS[i], ps.c_str());
            free(ip4);
        }
        if (ref.v == REJECT && sproto == HP_PROTOS[i]) any_nt = true;
        free(got);
        free(gport);
        if (!o.ok) return o;
    }
    // ux / uxf
    for (int i = 0; i < 2; i++) {
        const char *proto = i ? "uxf" : "ux";
        RefUx ref = ref_parse_ux(s, proto);
        size_t cap = d ? pick_capacity(*d, ref.name.size()) : ref.name.size() + 1;
        if (d && d->ch(3) == 0) cap = 600;
        OutBuf nb(cap);
        errno = 0;
        int rc = i ? xcm_addr_parse_uxf(hs.p, nb.p, cap) : xcm_addr_parse_ux(hs.p, nb.p, cap);
        int err = errno;
        VF_CHECK(rc == 0 || rc == -1, "parse_%s returned %d", proto, rc);
        if (rc == -1)
            VF_CHECK(err == EINVAL || err == ENAMETOOLONG, "parse_%s('%s') errno %s", proto, ps.c_str(), errname(err));
        if (sproto == proto) {
            // is_valid uses a full-size buffer; emulate by separate call
            OutBuf big(600);
            own_rc = i ? xcm_addr_parse_uxf(hs.p, big.p, 600) : xcm_addr_parse_ux(hs.p, big.p, 600);
        }
        if (ref.v == REJECT)
            VF_CHECK(rc == -1, "parse_%s ACCEPTS '%s' (outside documented syntax/limits)", proto, ps.c_str());
        if (rc == 0) {
            VF_CHECK(nb.slen() >= 0 && nb.slen() < (long)cap && ref.name == nb.p,
                     "parse_%s('%s') rc=0 but name differs / unterminated (cap %zu)", proto, ps.c_str(), cap);
            count("parse_accepts");
        }
        if (ref.v == OK) {
            if (cap > ref.name.size())
                VF_CHECK(rc == 0, "parse_%s rejects valid '%s' cap=%zu errno=%s", proto, ps.c_str(), cap, errname(err));
            else
                VF_CHECK(rc == -1 && err == ENAMETOOLONG, "parse_%s('%s') cap=%zu <= name %zu: rc=%d errno=%s", proto, ps.c_str(), cap, ref.name.size(), rc, errname(err));
        }
        if (ref.v == UNSPEC) count(rc == 0 ? "unspecified_accepted" : "unspecified_rejected");
        if (ref.v == REJECT && sproto == proto) any_nt = true;
    }
    // is_valid / is_supported agree with the parser of the address's own protocol
    bool known = false;
    for (auto k : KNOWN) if (sproto == k) known = true;
    bool valid = xcm_addr_is_valid(hs.p);
    bool supported = xcm_addr_is_supported(hs.p);
    if (known && colon != std::string::npos) {
        VF_CHECK(valid == (own_rc == 0), "is_valid('%s')=%d but parse_%s rc=%d", ps.c_str(), (int)valid, sproto.c_str(), own_rc);
        VF_CHECK(supported == (valid && sproto != "sctp"), "is_supported('%s')=%d, valid=%d", ps.c_str(), (int)supported, (int)valid);
    } else {
        VF_CHECK(!valid && !supported, "is_valid/is_supported true for unknown protocol in '%s'", ps.c_str());
        any_nt = true;
    }
    // parse_proto with a generated capacity
    {
        size_t plen = colon == std::string::npos ? 0 : colon;
        size_t cap = d ? pick_capacity(*d, plen) : 64;
        OutBuf pb(cap);
        errno = 0;
        int rc = xcm_addr_parse_proto(hs.p, pb.p, cap);
        int err = errno;
        if (colon == std::string::npos)
            VF_CHECK(rc == -1, "parse_proto accepts '%s' without separator", ps.c_str());
        if (rc == 0)
            VF_CHECK(pb.slen() == (long)plen && sproto == pb.p, "parse_proto('%s', cap %zu) gives wrong/unterminated proto", ps.c_str(), cap);
        else
            VF_CHECK(err == EINVAL || err == ENAMETOOLONG, "parse_proto errno %s", errname(err));
        if (colon != std::string::npos && plen >= cap)
            VF_CHECK(rc == -1, "parse_proto('%s') cap=%zu cannot fit proto of %zu", ps.c_str(), cap, plen);
        if (known && cap > plen && !has_ws(s) && s.size() <= 500)
            VF_CHECK(rc == 0, "parse_proto('%s', cap %zu) fails with %s", ps.c_str(), cap, errname(err));
    }
    if (any_nt) { c.nt(); c.cls("parse:near-miss/reject"); } else c.cls("parse:valid-or-unspec");
    return Outcome::pass();
}

Outcome convert_probe(Case &c, Dec &d)
{
    const Conv &cv = CONVS[d.ch(8)];
    int kind = (int)d.ch(3) == 0 ? 0 : (d.flag() ? 4 : 6);
    uint8_t ip[16] = {0};
    std::string name, host;
    if (kind == 0) { name = gen_name(d); host = name; }
    else if (kind == 4) { gen_ip4(d, ip); host = ip4_text(ip); }
    else { gen_ip6(d, ip); char t[64]; inet_ntop(AF_INET6, ip, t, sizeof(t)); host = std::string("[") + t + "]"; }
    uint16_t port = gen_port(d);
    std::string in = std::string(cv.from) + ":" + host + ":" + std::to_string(port);
    std::string exp = std::string(cv.to) + ":" + host + ":" + std::to_string(port);
    size_t cap = pick_capacity(d, exp.size());
    OutBuf b(cap);
    HeapStr hs(in);
    errno = 0;
    int rc = cv.fn(hs.p, b.p, cap);
    int err = errno;
    char what[200];
    snprintf(what, sizeof(what), "%s_to_%s(%s) cap=%zu", cv.from, cv.to, printable(in).substr(0, 60).c_str(), cap);
    c.log("%s -> %d", what, rc);
    if (cap <= exp.size()) { c.nt(); c.cls("make:capacity<=len"); }
    Outcome o = check_make_result(what, rc, err, b, false, kind == 6 ? nullptr : &exp, exp.size());
    if (!o.ok) return o;
    if (rc == 0) {
        struct xcm_addr_host got; uint16_t gp;
        int pidx = -1;
        for (int i = 0; i < 6; i++) if (!strcmp(HP_PROTOS[i], cv.to)) pidx = i;
        HeapStr out(b.p);
        int prc = HP_PARSE[pidx](out.p, &got, &gp);
        return verify_host_roundtrip(what, prc, errno, got, gp, kind, ip, name, port);
    }
    return Outcome::pass();
}

class C12 : public Harness {
public:
    const char *property() override { return "C12"; }
    size_t cfg_len() override { return 1; }
    size_t step_len() override { return 64; }
    size_t max_steps() override { return 24; }

    Outcome run(const Plan &p, Case &c) override
    {
        for (auto &st : p.steps) {
            Dec d(st);
            Outcome o;
            switch (d.ch(8)) {
            case 0: case 1: {
                int api = (int)d.ch(13);
                int kind = api >= 10 ? 4 : (api >= 6 ? (d.flag() ? 4 : 6) : (int)(d.ch(3) == 0 ? 0 : (d.flag() ? 4 : 6)));
                uint8_t ip[16] = {0};
                std::string name;
                if (kind == 0) name = gen_name(d);
                else if (kind == 4) gen_ip4(d, ip);
                else gen_ip6(d, ip);
                o = make_hp(c, api, kind, ip, name, gen_port(d), -1, &d);
                break;
            }
            case 2: o = make_ux(c, d); break;
            case 3: o = convert_probe(c, d); break;
            default: {
                std::string s = gen_parse_input(d, c);
                o = check_parse_string(c, s, &d);
            }
            }
            if (!o.ok) return o;
        }
        return Outcome::pass();
    }
};

} // namespace

// Exhaustive sub-space: all 65536 ports x every capacity 0..len+2 for a set of
// hosts and all entry points, sliced over workers.  Called by vf_main when
// VF_EXHAUSTIVE is set (see Harness::exhaustive).
namespace vf {
Harness *make_harness() { return new C12(); }
}

extern "C" int vf_exhaustive(std::string &report, std::string &failure)
{
    long w = getenv("VF_WORKER") ? atol(getenv("VF_WORKER")) : 0;
    long W = getenv("VF_WORKERS") ? atol(getenv("VF_WORKERS")) : 1;
    long napi = getenv("VF_EXH_APIS") ? atol(getenv("VF_EXH_APIS")) : 13;
    struct H { int kind; uint8_t ip[16]; std::string name; };
    std::vector<H> hosts;
    { H h{4, {127, 0, 0, 1}, ""}; hosts.push_back(h); }
    { H h{4, {255, 255, 255, 255}, ""}; hosts.push_back(h); }
    { H h{6, {0}, ""}; h.ip[15] = 1; hosts.push_back(h); }
    { H h{6, {0}, ""}; for (int i = 0; i < 16; i++) h.ip[i] = 0xfe; hosts.push_back(h); }
    { H h{0, {0}, "a"}; hosts.push_back(h); }
    { H h{0, {0}, std::string(63, 'x') + "." + std::string(63, 'y') + "." + std::string(63, 'z') + "." + std::string(61, 'w')}; hosts.push_back(h); }
    uint64_t n = 0, nt = 0;
    Case c;
    c.trace_on = false;
    for (long port = w; port < 65536; port += W) {
        for (int api = 0; api < napi; api++) {
            for (auto &h : hosts) {
                if (api >= 10 && h.kind != 4) continue;
                if (api >= 6 && h.kind == 0) continue;
                // length bound: proto(4)+1+host+1+5
                size_t maxL = 4 + 1 + (h.kind == 0 ? h.name.size() : 41) + 1 + 5;
                // the complete capacity range for short hosts; for the 253
                // char name only the window around the end (and a few below)
                size_t lo = h.name.size() > 100 ? h.name.size() - 2 : 0;
                for (size_t cap = lo; cap <= maxL + 2; cap++) {
                    Outcome o = make_hp(c, api, h.kind, h.ip, h.name, (uint16_t)port, (long)cap, nullptr);
                    n++;
                    if (!o.ok) {
                        char b[256];
                        snprintf(b, sizeof(b), "exhaustive: api=%d host-kind=%d port=%ld cap=%zu: ", api, h.kind, port, cap);
                        failure = std::string(b) + o.msg;
                        return 1;
                    }
                }
            }
        }
    }
    (void)nt;
    count("exhaustive_make_calls", n);
    report = "all ports in slice x all capacities";
    return 0;
}
