// C20 - xcmrelay is transparent.
//
// The relay is built from the working tree and run as a separate process
// between harness clients A1..A3 and a harness server B (all real XCM
// sockets, non-blocking, in the harness process).  Plans: per connection,
// sends in both directions at generated points, bursts until the sender is
// refused while the other side does not read (so the relay is really
// back-pressured on its outgoing leg), receives, closes at generated points.
// Oracle: end-to-end ledger per connection and direction (C01/C02 style), close
// ordering, relay liveness.
#include "vf.h"
#include "xpair.h"

#include <algorithm>
#include <arpa/inet.h>
#include <fcntl.h>
#include <netinet/in.h>
#include <signal.h>
#include <sys/socket.h>
#include <sys/wait.h>

using namespace vf;
using namespace xp;

namespace {

double now_s()
{
    struct timespec ts;
    clock_gettime(CLOCK_MONOTONIC, &ts);
    return ts.tv_sec + ts.tv_nsec / 1e9;
}

const char *PROTO[] = {"ux", "uxf", "tcp", "tls", "utls", "btcp", "btls"};
bool proto_bs(int p) { return p >= 5; }

int free_port()
{
    int s = socket(AF_INET, SOCK_STREAM, 0);
    struct sockaddr_in a;
    memset(&a, 0, sizeof(a));
    a.sin_family = AF_INET;
    a.sin_addr.s_addr = htonl(INADDR_LOOPBACK);
    bind(s, (struct sockaddr *)&a, sizeof(a));
    socklen_t l = sizeof(a);
    getsockname(s, (struct sockaddr *)&a, &l);
    close(s);
    return ntohs(a.sin_port);
}

struct Relay {
    pid_t pid = -1;
    int front = 0, back = 0;
    std::string front_addr, back_addr;
    Ep server; // harness server B behind the relay
    bool ok = false;
    std::string err;
    int serial = 0;

    std::string mkaddr(int p, const char *role)
    {
        static int n = 0;
        n++;
        std::string tag = std::to_string(getpid()) + "-" + std::to_string(n);
        if (p == 0) return std::string("ux:c20-") + role + "-" + tag;
        if (p == 1) return "uxf:" + tmpdir() + "/c20-" + role + "-" + tag + ".sock";
        return std::string(PROTO[p]) + ":127.0.0.1:" + std::to_string(free_port());
    }

    void start(int f, int b)
    {
        // an address picked here can be taken by another process before the relay binds it
        for (int attempt = 0; attempt < 4; attempt++) {
            start_once(f, b);
            if (ok) return;
        }
    }
    void start_once(int f, int b)
    {
        stop();
        err.clear();
        front = f; back = b;
        front_addr = mkaddr(f, "front");
        back_addr = mkaddr(b, "back");
        // two draws of a free port can give the same number: the relay would then fail to bind, and
        // the start-up probe would reach the server directly and take it for the relay
        auto port_of = [](const std::string &a) { size_t c = a.rfind(':'); return c == std::string::npos ? std::string() : a.substr(c + 1); };
        for (int i = 0; i < 20 && f >= 2 && b >= 2 && port_of(front_addr) == port_of(back_addr); i++) back_addr = mkaddr(b, "back");
        server = Ep();
        server.tag = 200;
        struct xcm_attr_map *a = xcm_attr_map_create();
        xcm_attr_map_add_bool(a, "xcm.blocking", false);
        if (proto_bs(b)) xcm_attr_map_add_str(a, "xcm.service", "bytestream");
        server.s = call(server, [&] { return xcm_server_a(back_addr.c_str(), a); });
        xcm_attr_map_destroy(a);
        if (!server.s) { err = "server " + back_addr + ": " + errname(errno); return; }
        server.closed = false;
        server.fd = x_fd(server);
        const char *exe = getenv("VF_RELAY_EXE");
        if (!exe) { err = "VF_RELAY_EXE not set"; return; }
        fflush(stdout);
        pid = fork();
        if (pid == 0) {
            std::string log = tmpdir() + "/relay-" + std::to_string(getpid()) + ".log";
            int fd = open(log.c_str(), O_WRONLY | O_CREAT | O_TRUNC, 0644);
            if (fd >= 0) { dup2(fd, 1); dup2(fd, 2); }
            // the relay must not inherit the harness's sockets (XCM does not set close-on-exec): a copy
            // of the server's listening socket would keep the address alive behind the harness's back
            for (int k = 3; k < 4096; k++) close(k);
            // pauses of a few seconds are part of the plans: they must not trip the 3 s default of
            // tcp.user_timeout (which the kernel applies to a peer that does not read, too)
            std::vector<const char *> av = {"xcmrelay"};
            if (b >= 2) { av.push_back("-i"); av.push_back("tcp.user_timeout=600"); }
            if (f >= 2) { av.push_back("-y"); av.push_back("-i"); av.push_back("tcp.user_timeout=600"); }
            av.push_back(front_addr.c_str());
            av.push_back(back_addr.c_str());
            av.push_back(nullptr);
            execv(exe, (char *const *)av.data());
            _exit(127);
        }
        // wait until the relay listens: a probe client connects to the front address and stays until the
        // connection the relay opens on its behalf has been accepted by the server behind.  That arrival
        // is also the proof that the listener which answered is this relay and not somebody else's socket
        // on a port this relay lost the race for (it then exits with "Address already in use").
        ok = false;
        double t0 = now_s();
        while (!ok && now_s() - t0 < 8.0) {
            if (!alive()) { err = "relay exited at start"; return; }
            Ep probe;
            probe.tag = 201;
            struct xcm_attr_map *pa = xcm_attr_map_create();
            xcm_attr_map_add_bool(pa, "xcm.blocking", false);
            if (proto_bs(f)) xcm_attr_map_add_str(pa, "xcm.service", "bytestream");
            probe.s = call(probe, [&] { return xcm_connect_a(front_addr.c_str(), pa); });
            xcm_attr_map_destroy(pa);
            if (!probe.s) { usleep(5000); continue; }
            probe.closed = false;
            bool dead = false;
            double t1 = now_s();
            while (!ok && !dead && now_s() - t1 < 2.0) {
                int rc = x_finish(probe);
                if (rc < 0 && errno != EAGAIN) dead = true; // nobody listening yet (or refused): try again
                Ep acc;
                acc.tag = 202;
                acc.s = call(acc, [&] { return xcm_accept(server.s); });
                if (acc.s) { acc.closed = false; x_close(acc); ok = true; }
                if (!alive()) dead = true;
                if (!ok) usleep(1000);
            }
            x_close(probe);
            if (!ok) usleep(5000);
        }
        if (!ok) { err = alive() ? "the probe connection never reached the server behind the relay (" + front_addr + ")" : "relay exited at start"; return; }
        // leftovers of probes that were given up: drained by their EOF in open_conn's pairing
    }
    pid_t last_pid = -1;
    bool alive()
    {
        if (pid <= 0) return false;
        last_pid = pid;
        int st;
        pid_t r = waitpid(pid, &st, WNOHANG);
        if (r == pid) { exit_status = st; pid = -1; ok = false; return false; }
        return true;
    }
    // how the relay went down and what it said last (its stdout/stderr go to a file of its own)
    std::string obituary()
    {
        if (pid > 0 || last_pid <= 0) return "";
        char head[64];
        snprintf(head, sizeof(head), " [exit status 0x%x; last output: ", exit_status);
        std::string log = pki::read_file(tmpdir() + "/relay-" + std::to_string((long)last_pid) + ".log");
        if (log.size() > 300) log = log.substr(log.size() - 300);
        for (auto &ch : log) if (ch == '\n') ch = '|';
        return std::string(head) + log + "]";
    }
    int exit_status = 0;
    void stop()
    {
        if (pid > 0) { kill(pid, SIGTERM); int st; for (int i = 0; i < 200; i++) { if (waitpid(pid, &st, WNOHANG) == pid) { pid = -1; break; } usleep(1000); } if (pid > 0) { kill(pid, SIGKILL); waitpid(pid, &st, 0); pid = -1; } }
        if (server.s) x_close(server);
        ok = false;
    }
};

Relay g_relays[7][7];

struct Dir {
    std::vector<std::pair<uint32_t, uint32_t>> msgs;
    size_t delivered = 0;
    std::string bytes;
    size_t off = 0;
    bool refused_seen = false;
    // btls endpoint of the harness: a refused send is retried with the identical buffer, and its
    // bytes may be transmitted by OpenSSL before the retry is accepted (C02's recorded finding)
    bool retry = false;
    uint32_t retry_tag = 0, retry_len = 0;
    std::string pending;
    size_t moved = 0;
    bool tail_at_close = false; // the sender closed while part of this was still undelivered
};

struct Conn {
    Ep a, b;      // a: client side (through the relay's front), b: accepted by the harness server
    Dir a2b, b2a;
    bool a_closed = false, b_closed = false;
    bool a_saw_close = false, b_saw_close = false;
};

class C20 : public Harness {
public:
    const char *property() override { return "C20"; }
    size_t cfg_len() override { return 6; }
    size_t step_len() override { return 5; }
    size_t max_steps() override { return 60; }
    void setup() override { sh_override_user_timeout(600000); World::get(); }
    void teardown() override
    {
        for (auto &row : g_relays) for (auto &r : row) r.stop();
    }

    Outcome run(const Plan &p, Case &c) override
    {
        sh_reset();
        Dec cfg(p.cfg);
        bool bs = cfg.ch(4) == 0;
        is_bs = bs;
        int f, b;
        if (bs) { f = 5 + (int)cfg.ch(2); b = 5 + (int)cfg.ch(2); }
        else { f = (int)cfg.ch(5); b = (int)cfg.ch(5); }
        int nconn = 1 + (int)cfg.ch(3);
        front_tp = f; back_tp = b;
        // a relay process of its own for every case: what the relay carries over from one connection
        // to the next is then part of the history in the plan (connections are re-opened inside a
        // case), and every failure reproduces from the plan alone
        Relay &r = g_relays[f][b];
        r.start(f, b);
        struct RelayGuard { Relay &r; ~RelayGuard() { r.stop(); } } relay_guard{r};
        VF_CHECK(r.ok, "setup: relay %s -> %s: %s", PROTO[f], PROTO[b], r.err.c_str());
        cur = &r;
        c.cls(std::string("legs:") + PROTO[f] + "->" + PROTO[b]);
        c.log("relay %s (front) -> %s (back), %d connection(s)", r.front_addr.c_str(), r.back_addr.c_str(), nconn);
        std::vector<Conn> cs(nconn);
        struct Guard { std::vector<Conn> &v; ~Guard() { for (auto &x : v) { x_close(x.a); x_close(x.b); } } } guard{cs};
        // ---- set up the connections one at a time (so that pairing is known)
        for (int i = 0; i < nconn; i++) {
            Outcome oo = open_conn(r, cs[i], i, bs);
            if (!oo.ok) return oo;
        }
        // ---- steps
        Outcome o = Outcome::pass();
        bool both_dirs = false, paused_burst = false, close_in_flight = false, reopened = false;
        size_t stepno = 0;
        for (auto &st : p.steps) {
            if (!o.ok) break;
            stepno++;
            Dec d(st);
            uint32_t k = d.ch(100);
            Conn &cn = cs[d.ch(nconn)];
            bool from_a = d.flag();
            uint32_t x = d.raw(), y = d.raw();
            if (k < 35) {
                uint32_t len = pick_len(x, y, bs);
                o = do_send(c, cn, from_a, mix32(x, (uint32_t)stepno), len);
            } else if (k < 50) {
                // burst: send until refused, the other side not reading
                int n = 0;
                for (; n < 400 && o.ok; n++) {
                    Dir &dd = from_a ? cn.a2b : cn.b2a;
                    size_t before = bs ? dd.bytes.size() : dd.msgs.size();
                    // every third message is tiny: what the relay holds when its outgoing leg fills up is
                    // then a small message about as often as a large one
                    uint32_t blen = bs ? (n % 3 == 2 ? 1 + mix32(y, n) % 90 : 60000) : (n % 3 == 2 ? 1 + mix32(y, n) % 90 : 20000 + (y % 40000));
                    o = do_send(c, cn, from_a, mix32(x, n), blen, n < 3);
                    if ((bs ? dd.bytes.size() : dd.msgs.size()) == before) break;
                }
                c.log("c%d %s: burst of %d sends until refused", (int)(&cn - &cs[0]), from_a ? "A" : "B", n);
                if (n > 3) { paused_burst = true; c.cls("burst-until-backpressure"); }
            } else if (k < 85) {
                o = do_recv(c, cn, from_a, 1 + (int)(x % 5));
            } else if (k < 92 && !(cn.a.closed && cn.b.closed)) {
                if (!cn.a.closed) x_finish(cn.a);
                if (!cn.b.closed) x_finish(cn.b);
            } else if (cn.a.closed && cn.b.closed) {
                // both ends of this relayed connection are gone: a new client connects in its place
                int slot = (int)(&cn - &cs[0]);
                c.log("c%d: both ends are closed; a new client connection takes the slot", slot);
                c.cls("connection-reopened-after-close");
                reopened = true;
                cn = Conn();
                o = open_conn(r, cn, slot, bs);
            } else if (stepno <= p.steps.size() / 2 && (x % 2 == 1 || k < 96)) {
                if (x % 2 == 1) o = target_down(c, r, bs, cs);
            } else {
                Ep &e = from_a ? cn.a : cn.b;
                if (!e.closed) {
                    Dir &out = from_a ? cn.a2b : cn.b2a;
                    if (excluded("relay-drops-tail-on-close")) {
                        // recorded finding: the relay tears both legs down as soon as it notices a close or
                        // cannot write towards the closer, dropping what the closer had sent. Excluded by
                        // construction: the other side first receives everything the closer sent.
                        count_exclusion("relay-drops-tail-on-close");
                        double tq = now_s();
                        bool other_open = !(from_a ? cn.b.closed : cn.a.closed);
                        while (o.ok && other_open && (bs ? out.off < out.bytes.size() : out.delivered < out.msgs.size()) && now_s() - tq < 2) {
                            x_finish(e);
                            size_t b4 = bs ? out.off : out.delivered;
                            o = do_recv(c, cn, !from_a, 50);
                            if ((bs ? out.off : out.delivered) == b4) usleep(300);
                        }
                        if (!o.ok) break;
                    }
                    bool pending = bs ? out.off < out.bytes.size() : out.delivered < out.msgs.size();
                    // the closing side lets its own socket finish first (what it sent is then in the relay's hands)
                    for (int q = 0; q < 2000; q++) { if (x_finish(e) == 0) break; if (errno != EAGAIN) break; usleep(200); }
                    c.log("c%d %s closes%s", (int)(&cn - &cs[0]), from_a ? "A" : "B", pending ? " with data of its own still in flight" : "");
                    if (pending) { close_in_flight = true; out.tail_at_close = true; c.cls("close-with-data-in-flight"); }
                    x_close(e);
                    (from_a ? cn.a_closed : cn.b_closed) = true;
                }
            }
            if (!cn.a2b.msgs.empty() && !cn.b2a.msgs.empty()) both_dirs = true;
            if (!cn.a2b.bytes.empty() && !cn.b2a.bytes.empty()) both_dirs = true;
        }
        // ---- drain: everything accepted must arrive; a close only after it
        double t0 = now_s(), last = now_s();
        while (o.ok) {
            bool all = true, progress = false;
            for (auto &cn : cs) {
                for (int side = 0; side < 2 && o.ok; side++) {
                    bool to_a = side == 0;
                    Ep &e = to_a ? cn.a : cn.b;
                    if (e.closed) continue;
                    x_finish(e);
                    Dir &in = to_a ? cn.b2a : cn.a2b;
                    size_t before = bs ? in.off : in.delivered;
                    o = do_recv(c, cn, to_a, 50);
                    if ((bs ? in.off : in.delivered) != before) progress = true;
                    bool peer_closed = to_a ? cn.b_closed : cn.a_closed;
                    bool complete = bs ? in.off == in.bytes.size() : in.delivered == in.msgs.size();
                    bool saw = to_a ? cn.a_saw_close : cn.b_saw_close;
                    if (!complete) all = false;
                    if (peer_closed && !saw) all = false;
                }
            }
            if (all || !o.ok) break;
            if (progress) last = now_s();
            if (now_s() - last > 10.0) {
                std::string what;
                for (size_t i = 0; i < cs.size(); i++) {
                    Conn &cn = cs[i];
                    char b2[256];
                    snprintf(b2, sizeof(b2), "c%zu: A->B %zu/%zu, B->A %zu/%zu%s%s; ", i, bs ? cn.a2b.off : cn.a2b.delivered, bs ? cn.a2b.bytes.size() : cn.a2b.msgs.size(),
                             bs ? cn.b2a.off : cn.b2a.delivered, bs ? cn.b2a.bytes.size() : cn.b2a.msgs.size(), cn.a_closed ? " A closed" : "", cn.b_closed ? " B closed" : "");
                    what += b2;
                }
                o = failf("C20: the relay (%s) stalled: nothing moved for 10 s with data or a close still owed (%s)", r.alive() ? "alive" : "DEAD", what.c_str());
                break;
            }
            if (now_s() - t0 > 120) { o = failf("C20: drain exceeded 120 s"); break; }
            if (!progress) usleep(500);
        }
        if (!r.alive()) {
            // whatever else went wrong: a relay that died is the finding
            std::string tail;
            return failf("C20: the relay process exited (status 0x%x) while serving connections%s%s", r.exit_status, o.ok ? "" : "; first symptom: ", o.ok ? "" : o.msg.c_str());
        }
        if (!r.alive()) r.ok = false;
        c.nt(both_dirs && (paused_burst || close_in_flight || reopened));
        return o;
    }

    // Connect a client through the relay and find the connection the relay opens to the server on
    // its behalf.  Which accepted connection belongs to which client is established by the first
    // thing the client sends (a nonce, part of the ledger like any other traffic would be): a
    // connection the relay opened for an earlier, abandoned client (the start-up probe, a client
    // turned away while the server was down) may still arrive late and is recognised by its EOF.
    uint32_t nonce_ctr = 0;
    long stray = 0; // foreign connections discarded while pairing
    std::vector<std::pair<uint32_t, int>> nonces; // (tag, slot) of the connections opened lately
    Outcome open_conn(Relay &r, Conn &cn, int i, bool bs)
    {
        cn.a.tag = 210 + i;
        cn.b.tag = 220 + i;
        struct xcm_attr_map *a = xcm_attr_map_create();
        xcm_attr_map_add_bool(a, "xcm.blocking", false);
        if (bs) xcm_attr_map_add_str(a, "xcm.service", "bytestream");
        cn.a.s = call(cn.a, [&] { return xcm_connect_a(r.front_addr.c_str(), a); });
        int e = errno;
        xcm_attr_map_destroy(a);
        VF_CHECK(cn.a.s != nullptr, "C20: connect to the relay's front address failed: %s (relay process %s)%s", errname(e), r.alive() ? "alive" : "EXITED", r.obituary().c_str());
        cn.a.closed = false;
        cn.a.fd = x_fd(cn.a);
        uint8_t nonce[8], got[8];
        uint32_t tag = mix32(++nonce_ctr, (uint32_t)getpid());
        nonces.push_back({tag, i});
        if (nonces.size() > 64) nonces.erase(nonces.begin());
        prf_fill(tag, nonce, sizeof(nonce));
        size_t sent = 0, ngot = 0;
        double t0 = now_s();
        bool paired = false;
        while (!paired && now_s() - t0 < 6.0) {
            int rc = x_finish(cn.a);
            VF_CHECK(rc == 0 || errno == EAGAIN, "C20: the client's connection through the relay failed with %s before anything was sent (relay process %s)", errname(errno), r.alive() ? "alive" : "EXITED");
            if (sent < sizeof(nonce)) {
                rc = x_send(cn.a, nonce + sent, sizeof(nonce) - sent);
                if (rc == 0 && !bs) sent = sizeof(nonce);
                else if (rc > 0) sent += rc;
                else VF_CHECK(errno == EAGAIN, "C20: the first xcm_send on a connection through the relay failed with %s (relay process %s)", errname(errno), r.alive() ? "alive" : "EXITED");
            }
            if (!cn.b.s) {
                cn.b.s = call(cn.b, [&] { return xcm_accept(r.server.s); });
                if (cn.b.s) { cn.b.closed = false; ngot = 0; }
            }
            if (cn.b.s) {
                x_finish(cn.b);
                rc = x_receive(cn.b, got + ngot, sizeof(got) - ngot);
                if (rc > 0) {
                    ngot += rc;
                    if (!bs || ngot == sizeof(got)) {
                        if (!(ngot == sizeof(nonce) && memcmp(got, nonce, sizeof(nonce)) == 0)) {
                            std::string whose = "nobody's first message in this process";
                            for (size_t q = 0; q + 1 < nonces.size(); q++) {
                                uint8_t other[8];
                                prf_fill(nonces[q].first, other, sizeof(other));
                                if (ngot == sizeof(other) && memcmp(got, other, sizeof(other)) == 0)
                                    whose = "the first message of an earlier client connection (slot " + std::to_string(nonces[q].second) + ", " + std::to_string(nonces.size() - 1 - q) + " connection(s) ago)";
                            }
                            if (whose[0] != 'n')
                                return failf("C20: the first message on the connection the relay opened for client connection %d is not what that client sent (%zu bytes: %s; it is %s)", i, ngot, hex(got, ngot, 8).c_str(), whose.c_str());
                            // somebody else's client on a port that is ours now (the harness processes of one
                            // run draw from the same ephemeral range; seen: a TLS ClientHello on a btcp server):
                            // not the connection we are waiting for
                            stray++;
                            x_close(cn.b);
                            cn.b = Ep();
                            cn.b.tag = 220 + i;
                            ngot = 0;
                            continue;
                        }
                        paired = true;
                    }
                } else if (rc == 0 || errno != EAGAIN) {
                    // opened on behalf of a client that is gone already
                    x_close(cn.b);
                    cn.b = Ep();
                    cn.b.tag = 220 + i;
                }
            }
            if (!paired) usleep(300);
        }
        VF_CHECK(paired, "C20: the relay did not open a working connection to the server for client connection %d within 6 s (relay process %s; %s)%s", i, r.alive() ? "alive" : "EXITED",
                 cn.b.s ? "a connection was accepted but the client's first message did not arrive" : "nothing to accept", r.obituary().c_str());
        cn.b.fd = x_fd(cn.b);
        return Outcome::pass();
    }

    // The server behind the relay is not listening for a moment (a restart) and a new client connects
    // meanwhile.  That client cannot be served; the relay must stay up for the connections it has.
    Outcome target_down(Case &c, Relay &r, bool bs, std::vector<Conn> &cs)
    {
        int live = 0;
        for (auto &cn : cs) if (!cn.a.closed && !cn.b.closed) live++;
        c.cls("target-not-listening-for-a-new-client");
        x_close(r.server);
        Ep orphan;
        orphan.tag = 230;
        struct xcm_attr_map *a = xcm_attr_map_create();
        xcm_attr_map_add_bool(a, "xcm.blocking", false);
        if (bs) xcm_attr_map_add_str(a, "xcm.service", "bytestream");
        orphan.s = call(orphan, [&] { return xcm_connect_a(r.front_addr.c_str(), a); });
        xcm_attr_map_destroy(a);
        bool ended = orphan.s == nullptr;
        if (orphan.s) {
            orphan.closed = false;
            // until the relay has given this client up (it then cannot pair it with the server made below)
            double t0 = now_s();
            while (!ended && now_s() - t0 < 2.0) {
                uint8_t t[64];
                int rc = x_finish(orphan);
                if (rc < 0 && errno != EAGAIN) { ended = true; break; }
                rc = x_receive(orphan, t, sizeof(t));
                if (rc == 0 || (rc < 0 && errno != EAGAIN)) { ended = true; break; }
                if (!r.alive()) break;
                usleep(1000);
            }
            x_close(orphan);
        }
        c.log("server not listening while a new client connects through the relay (%d live relayed connection(s)): that client %s", live, ended ? "was turned away" : "was left hanging for 2 s");
        c.cls(ended ? "new-client-turned-away" : "new-client-left-hanging");
        // the server is back, on the same address
        r.server = Ep();
        r.server.tag = 200;
        for (int i = 0; i < 400 && !r.server.s; i++) {
            struct xcm_attr_map *sa = xcm_attr_map_create();
            xcm_attr_map_add_bool(sa, "xcm.blocking", false);
            if (proto_bs(r.back)) xcm_attr_map_add_str(sa, "xcm.service", "bytestream");
            r.server.s = call(r.server, [&] { return xcm_server_a(r.back_addr.c_str(), sa); });
            xcm_attr_map_destroy(sa);
            if (!r.server.s) usleep(5000);
        }
        if (!r.server.s) return failf("harness: the server could not be re-created on %s: %s", r.back_addr.c_str(), errname(errno));
        r.server.closed = false;
        r.server.fd = x_fd(r.server);
        VF_CHECK(r.alive(), "C20: the relay process exited (status 0x%x) when it could not reach the server for one new client, with %d relayed connection(s) live", r.exit_status, live);
        // a late connection attempt on behalf of the orphan would confuse the pairing: discard it
        for (int i = 0; i < 30; i++) {
            Ep acc;
            acc.tag = 202;
            acc.s = call(acc, [&] { return xcm_accept(r.server.s); });
            if (acc.s) { acc.closed = false; x_close(acc); }
            usleep(1000);
        }
        return Outcome::pass();
    }

    uint32_t pick_len(uint32_t x, uint32_t y, bool bs)
    {
        static const int B[] = {1, 2, 100, 4096, 16384, 16385, 65535, 65534, 30000};
        if (bs) return y % 3 ? 1 + x % 3000 : 1 + x % 200000;
        if (y % 4 == 1) return 1 + x % 200; // small messages queue up behind large ones in a back-pressured relay
        return y % 3 == 0 ? (uint32_t)B[x % 9] : 1 + x % 65535;
    }

    Outcome do_send(Case &c, Conn &cn, bool from_a, uint32_t tag, uint32_t len, bool logit = true)
    {
        Ep &e = from_a ? cn.a : cn.b;
        if (e.closed) return Outcome::pass();
        Dir &out = from_a ? cn.a2b : cn.b2a;
        bool bs = is_bs;
        (void)bs;
        bool btls_end = (from_a ? front_tp : back_tp) == 6;
        if (btls_end && out.retry) { tag = out.retry_tag; len = out.retry_len; }
        std::vector<uint8_t> b(len);
        prf_fill(tag, b.data(), len);
        int rc = x_send(e, b.data(), len);
        int er = errno;
        if (logit) c.log("%s send(len %u) -> %d %s", from_a ? "A" : "B", len, rc, rc < 0 ? errname(er) : "");
        if (rc < 0) {
            if (er == EAGAIN) {
                out.refused_seen = true;
                if (btls_end) {
                    out.retry = true; out.retry_tag = tag; out.retry_len = len;
                    size_t mv = std::min<size_t>(out.moved, len);
                    out.pending.assign((const char *)b.data() + mv, len - mv);
                }
                return Outcome::pass();
            }
            bool peer_closed = from_a ? cn.b_closed : cn.a_closed;
            VF_CHECK(peer_closed, "C20: xcm_send through the relay failed with %s although the other side is open", errname(er));
            return Outcome::pass();
        }
        if (rc == 0 && len > 0 && !is_bs) out.msgs.push_back({tag, len});
        else if (rc > 0) {
            size_t skip = std::min<size_t>(out.moved, rc);
            out.bytes.append((const char *)b.data() + skip, rc - skip);
            out.moved = 0;
            out.pending.clear();
            out.retry = false;
        }
        return Outcome::pass();
    }
    int front_tp = 0, back_tp = 0;
    Relay *cur = nullptr;
    bool is_bs = false;

    Outcome do_recv(Case &c, Conn &cn, bool at_a, int max)
    {
        Ep &e = at_a ? cn.a : cn.b;
        if (e.closed) return Outcome::pass();
        Dir &in = at_a ? cn.b2a : cn.a2b;
        static std::vector<uint8_t> buf(262144);
        for (int n = 0; n < max; n++) {
            int rc = x_receive(e, buf.data(), buf.size());
            int er = errno;
            if (rc < 0 && er == EAGAIN) return Outcome::pass();
            bool peer_closed = at_a ? cn.b_closed : cn.a_closed;
            if (rc <= 0) {
                VF_CHECK(peer_closed, "C20: %s's xcm_receive returned %d %s although the other side has not closed; relay process %s", at_a ? "A" : "B", rc, rc < 0 ? errname(er) : "",
                         cur && cur->alive() ? "alive (it dropped this connection)" : "DEAD");
                bool complete = is_bs ? in.off == in.bytes.size() : in.delivered == in.msgs.size();
                VF_CHECK(complete, "C20: %s sees the connection %s before everything the other side had successfully sent arrived (%zu of %zu %s delivered)%s", at_a ? "A" : "B",
                         rc == 0 ? "closed" : errname(er), is_bs ? in.off : in.delivered, is_bs ? in.bytes.size() : in.msgs.size(), is_bs ? "bytes" : "messages",
                         in.tail_at_close ? " [the other side closed while that data was still undelivered]" : "");
                (at_a ? cn.a_saw_close : cn.b_saw_close) = true;
                x_close(e);
                (at_a ? cn.a_closed : cn.b_closed) = true;
                return Outcome::pass();
            }
            if (is_bs) {
                if (!in.pending.empty() && in.off + rc > in.bytes.size()) {
                    std::string all = in.bytes + in.pending;
                    size_t take = std::min(all.size(), in.off + rc) - in.bytes.size();
                    in.moved += take;
                    in.bytes = all.substr(0, in.bytes.size() + take);
                    in.pending = all.substr(in.bytes.size());
                }
                VF_CHECK(in.off + rc <= in.bytes.size(), "C20: %s received %d bytes, only %zu are outstanding (duplicated or invented data)", at_a ? "A" : "B", rc, in.bytes.size() - in.off);
                VF_CHECK(memcmp(buf.data(), in.bytes.data() + in.off, rc) == 0, "C20: %s: the relayed byte stream differs from what was sent at offset %zu", at_a ? "A" : "B", in.off);
                in.off += rc;
                continue;
            }
            VF_CHECK(in.delivered < in.msgs.size(), "C20: %s received a %d-byte message although all %zu sent messages had been delivered (duplicate or invented)", at_a ? "A" : "B", rc, in.msgs.size());
            auto m = in.msgs[in.delivered];
            VF_CHECK((uint32_t)rc == m.second, "C20: %s: message #%zu was sent with %u bytes and arrives with %d", at_a ? "A" : "B", in.delivered, m.second, rc);
            for (int k = 0; k < rc; k++) VF_CHECK(buf[k] == prf_byte(m.first, k), "C20: %s: message #%zu altered at byte %d", at_a ? "A" : "B", in.delivered, k);
            in.delivered++;
        }
        return Outcome::pass();
    }
};

} // namespace

namespace vf {
Harness *make_harness() { return new C20(); }
}
