// In-process X.509 / CRL factory on libcrypto (EC P-256).  All generation
// metadata is kept in the returned objects: oracles evaluate that metadata,
// never OpenSSL's verdict.
#pragma once
#include <cstdint>
#include <memory>
#include <string>
#include <vector>

namespace pki {

enum Eku { EKU_NONE = 0, EKU_SERVER = 1, EKU_CLIENT = 2, EKU_BOTH = 3 };

struct CertSpec {
    std::string cn;
    bool is_ca = false;
    std::vector<std::string> dns_sans;
    std::vector<std::string> email_sans;
    std::vector<std::string> dir_sans; // CN of a directoryName SAN
    int eku = EKU_NONE;
    long not_before_off = -3600;      // seconds relative to now
    long not_after_off = 3600 * 24 * 30;
    long serial = 0;                  // 0 = allocate
    bool skid = true;                 // include subjectKeyIdentifier
    bool rsa = false;                 // RSA-2048 key instead of EC P-256
};

struct Cert {
    CertSpec spec;
    std::string cert_pem;
    std::string key_pem;
    std::string skid_hex;        // subject key id, lowercase hex, no separators
    long serial = 0;
    const Cert *issuer = nullptr; // nullptr = self signed
    void *x509 = nullptr;        // X509*
    void *pkey = nullptr;        // EVP_PKEY*
    ~Cert();
    // facts (from generation metadata)
    bool expired() const { return spec.not_after_off < 0; }
    bool not_yet_valid() const { return spec.not_before_off > 0; }
};

typedef std::shared_ptr<Cert> CertP;

CertP make_cert(const CertSpec &spec, const Cert *issuer);

// CRL issued by `issuer` revoking `serials`
std::string make_crl(const Cert &issuer, const std::vector<long> &serials,
                     long last_update_off = -3600, long next_update_off = 3600 * 24);

void write_file(const std::string &path, const std::string &content);
std::string read_file(const std::string &path);

// A ready-made small world used by the data-path harnesses: one root, one
// leaf per role, written below `dir` as cert.pem/key.pem/tc.pem.
struct SimpleWorld {
    CertP root, leaf;
    std::string dir;
};
SimpleWorld make_simple_world(const std::string &dir, const std::string &cn = "verif-leaf");

} // namespace pki
