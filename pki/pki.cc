#include "pki.h"

#include <openssl/bio.h>
#include <openssl/ec.h>
#include <openssl/evp.h>
#include <openssl/pem.h>
#include <openssl/x509.h>
#include <openssl/x509v3.h>

#include <cstdio>
#include <cstdlib>
#include <fstream>
#include <sstream>
#include <stdexcept>

namespace pki {

static long g_serial = 1000;

static void die(const char *what)
{
    fprintf(stderr, "pki: %s failed\n", what);
    abort();
}

static std::string bio_str(BIO *b)
{
    char *p = nullptr;
    long n = BIO_get_mem_data(b, &p);
    return std::string(p, (size_t)n);
}

static void add_ext(X509 *cert, X509 *issuer, int nid, const std::string &value)
{
    X509V3_CTX ctx;
    X509V3_set_ctx_nodb(&ctx);
    X509V3_set_ctx(&ctx, issuer, cert, nullptr, nullptr, 0);
    X509_EXTENSION *ex = X509V3_EXT_conf_nid(nullptr, &ctx, nid, value.c_str());
    if (!ex) die(("X509V3_EXT_conf_nid " + value).c_str());
    X509_add_ext(cert, ex, -1);
    X509_EXTENSION_free(ex);
}

Cert::~Cert()
{
    if (x509) X509_free((X509 *)x509);
    if (pkey) EVP_PKEY_free((EVP_PKEY *)pkey);
}

CertP make_cert(const CertSpec &spec, const Cert *issuer)
{
    CertP c = std::make_shared<Cert>();
    c->spec = spec;
    c->issuer = issuer;
    EVP_PKEY *pkey = spec.rsa ? EVP_RSA_gen(2048) : EVP_EC_gen("P-256");
    if (!pkey) die("EVP_EC_gen");
    X509 *x = X509_new();
    X509_set_version(x, 2);
    c->serial = spec.serial ? spec.serial : g_serial++;
    ASN1_INTEGER_set(X509_get_serialNumber(x), c->serial);
    X509_gmtime_adj(X509_getm_notBefore(x), spec.not_before_off);
    X509_gmtime_adj(X509_getm_notAfter(x), spec.not_after_off);
    X509_set_pubkey(x, pkey);
    X509_NAME *name = X509_get_subject_name(x);
    X509_NAME_add_entry_by_txt(name, "O", MBSTRING_ASC, (const unsigned char *)"xcm-verif", -1, -1, 0);
    X509_NAME_add_entry_by_txt(name, "CN", MBSTRING_ASC, (const unsigned char *)spec.cn.c_str(), -1, -1, 0);
    X509 *iss = issuer ? (X509 *)issuer->x509 : x;
    X509_set_issuer_name(x, X509_get_subject_name(iss));
    if (spec.is_ca) {
        add_ext(x, iss, NID_basic_constraints, "critical,CA:TRUE");
        add_ext(x, iss, NID_key_usage, "critical,keyCertSign,cRLSign,digitalSignature");
    } else {
        add_ext(x, iss, NID_basic_constraints, "CA:FALSE");
        add_ext(x, iss, NID_key_usage, "digitalSignature,keyAgreement");
    }
    if (spec.skid) add_ext(x, iss, NID_subject_key_identifier, "hash");
    if (issuer) add_ext(x, iss, NID_authority_key_identifier, "keyid");
    std::string san;
    for (auto &d : spec.dns_sans) san += (san.empty() ? "" : ",") + std::string("DNS:") + d;
    for (auto &e : spec.email_sans) san += (san.empty() ? "" : ",") + std::string("email:") + e;
    if (!san.empty() || !spec.dir_sans.empty()) {
        GENERAL_NAMES *gens = sk_GENERAL_NAME_new_null();
        for (auto &d : spec.dns_sans) {
            GENERAL_NAME *g = GENERAL_NAME_new();
            ASN1_IA5STRING *s = ASN1_IA5STRING_new();
            ASN1_STRING_set(s, d.c_str(), (int)d.size());
            GENERAL_NAME_set0_value(g, GEN_DNS, s);
            sk_GENERAL_NAME_push(gens, g);
        }
        for (auto &e : spec.email_sans) {
            GENERAL_NAME *g = GENERAL_NAME_new();
            ASN1_IA5STRING *s = ASN1_IA5STRING_new();
            ASN1_STRING_set(s, e.c_str(), (int)e.size());
            GENERAL_NAME_set0_value(g, GEN_EMAIL, s);
            sk_GENERAL_NAME_push(gens, g);
        }
        for (auto &dn : spec.dir_sans) {
            GENERAL_NAME *g = GENERAL_NAME_new();
            X509_NAME *n = X509_NAME_new();
            X509_NAME_add_entry_by_txt(n, "CN", MBSTRING_ASC, (const unsigned char *)dn.c_str(), -1, -1, 0);
            GENERAL_NAME_set0_value(g, GEN_DIRNAME, n);
            sk_GENERAL_NAME_push(gens, g);
        }
        X509_add1_ext_i2d(x, NID_subject_alt_name, gens, 0, X509V3_ADD_DEFAULT);
        sk_GENERAL_NAME_pop_free(gens, GENERAL_NAME_free);
    }
    if (spec.eku == EKU_SERVER) add_ext(x, iss, NID_ext_key_usage, "serverAuth");
    else if (spec.eku == EKU_CLIENT) add_ext(x, iss, NID_ext_key_usage, "clientAuth");
    else if (spec.eku == EKU_BOTH) add_ext(x, iss, NID_ext_key_usage, "serverAuth,clientAuth");
    EVP_PKEY *signer = issuer ? (EVP_PKEY *)issuer->pkey : pkey;
    if (!X509_sign(x, signer, EVP_sha256())) die("X509_sign");

    BIO *b = BIO_new(BIO_s_mem());
    PEM_write_bio_X509(b, x);
    c->cert_pem = bio_str(b);
    BIO_free(b);
    b = BIO_new(BIO_s_mem());
    PEM_write_bio_PrivateKey(b, pkey, nullptr, nullptr, 0, nullptr, nullptr);
    c->key_pem = bio_str(b);
    BIO_free(b);
    if (spec.skid) {
        const ASN1_OCTET_STRING *kid = X509_get0_subject_key_id(x);
        if (kid) {
            static const char *hx = "0123456789abcdef";
            for (int i = 0; i < kid->length; i++) {
                c->skid_hex += hx[kid->data[i] >> 4];
                c->skid_hex += hx[kid->data[i] & 15];
            }
        }
    }
    c->x509 = x;
    c->pkey = pkey;
    return c;
}

std::string make_crl(const Cert &issuer, const std::vector<long> &serials, long last_off,
                     long next_off)
{
    X509_CRL *crl = X509_CRL_new();
    X509_CRL_set_version(crl, 1);
    X509_CRL_set_issuer_name(crl, X509_get_subject_name((X509 *)issuer.x509));
    ASN1_TIME *t = ASN1_TIME_new();
    X509_gmtime_adj(t, last_off);
    X509_CRL_set1_lastUpdate(crl, t);
    X509_gmtime_adj(t, next_off);
    X509_CRL_set1_nextUpdate(crl, t);
    for (long s : serials) {
        X509_REVOKED *r = X509_REVOKED_new();
        ASN1_INTEGER *i = ASN1_INTEGER_new();
        ASN1_INTEGER_set(i, s);
        X509_REVOKED_set_serialNumber(r, i);
        X509_gmtime_adj(t, -1800);
        X509_REVOKED_set_revocationDate(r, t);
        X509_CRL_add0_revoked(crl, r);
        ASN1_INTEGER_free(i);
    }
    ASN1_TIME_free(t);
    X509_CRL_sort(crl);
    if (!X509_CRL_sign(crl, (EVP_PKEY *)issuer.pkey, EVP_sha256())) die("X509_CRL_sign");
    BIO *b = BIO_new(BIO_s_mem());
    PEM_write_bio_X509_CRL(b, crl);
    std::string s = bio_str(b);
    BIO_free(b);
    X509_CRL_free(crl);
    return s;
}

void write_file(const std::string &path, const std::string &content)
{
    std::ofstream f(path, std::ios::binary | std::ios::trunc);
    f << content;
}

std::string read_file(const std::string &path)
{
    std::ifstream f(path, std::ios::binary);
    std::ostringstream o;
    o << f.rdbuf();
    return o.str();
}

SimpleWorld make_simple_world(const std::string &dir, const std::string &cn)
{
    SimpleWorld w;
    w.dir = dir;
    CertSpec rs;
    rs.cn = "verif-root";
    rs.is_ca = true;
    w.root = make_cert(rs, nullptr);
    CertSpec ls;
    ls.cn = cn;
    ls.dns_sans = {cn};
    w.leaf = make_cert(ls, w.root.get());
    write_file(dir + "/cert.pem", w.leaf->cert_pem);
    write_file(dir + "/key.pem", w.leaf->key_pem);
    write_file(dir + "/tc.pem", w.root->cert_pem);
    return w;
}

} // namespace pki
