#!/usr/bin/env python3
"""Content-hash based builder: compiles the XCM sources straight from the
working tree ($XCM_SRC, default /repo) into static archives per variant, and
links harness executables against them.  stdlib only."""
import fcntl
import hashlib
import os
import re
import shutil
import subprocess
import sys
from concurrent.futures import ThreadPoolExecutor

VERIF = os.path.dirname(os.path.abspath(__file__))
BUILD = os.path.join(VERIF, "build")
GUARD = "ERICSSON_XCM_VERIF"


def src_root():
    return os.environ.get("XCM_SRC", "/repo")


CC = "clang"
CXX = "clang++"

SAN = ["-fsanitize=address,undefined", "-fno-sanitize=shift-base",
       "-fno-sanitize-recover=undefined", "-fno-omit-frame-pointer"]

VARIANTS = {
    # name: (cc, cflags, ldflags)
    "asan": (CC, ["-O1", "-g"] + SAN, SAN),
    "fuzz": (CC, ["-O1", "-g", "-fsanitize=fuzzer-no-link"] + SAN,
             ["-fsanitize=fuzzer"] + SAN),
    "tsan": (CC, ["-O1", "-g", "-fsanitize=thread", "-fno-omit-frame-pointer"],
             ["-fsanitize=thread"]),
    "plain": ("gcc", ["-O1", "-g"], []),
}

BASE_CFLAGS = ["-std=gnu99", "-Wall", "-Wno-unused-function",
               "-D_POSIX_C_SOURCE=200809L", "-D_BSD_SOURCE",
               "-D_DEFAULT_SOURCE", "-D_GNU_SOURCE",
               "-D" + GUARD + "=1", '-DSYSCONFDIR="/etc"']

LIB_EXCLUDE = {"xcm_dns_glibc.c", "xcm_tp_sctp.c"}


def inc_dirs(root):
    gen = os.path.join(BUILD, "gen")
    dirs = [gen, "include", "common", "libxcm/core", "libxcm/tp/common",
            "libxcm/tp/ux", "libxcm/tp/tcp", "libxcm/tp/dns", "libxcm/tp/tls",
            "libxcm/ctl", "libxcmctl", "tools/common", "tools/xcmrelay"]
    return ["-I" + (d if os.path.isabs(d) else os.path.join(root, d))
            for d in dirs]


def lib_sources(root):
    out = []
    for top in ("common", "libxcm"):
        for dp, dn, fn in os.walk(os.path.join(root, top)):
            dn[:] = [d for d in dn if d not in (".libs", ".deps")]
            for f in sorted(fn):
                if f.endswith(".c") and f not in LIB_EXCLUDE:
                    out.append(os.path.join(dp, f))
    out.sort()
    return out


def ctl_client_sources(root):
    return [os.path.join(root, "libxcmctl/xcmc.c")]


def relay_sources(root):
    return [os.path.join(root, p) for p in
            ("tools/xcmrelay/main.c", "tools/xcmrelay/rserver.c",
             "tools/xcmrelay/xrelay.c", "tools/common/attr.c")]


def tree_hash(root):
    h = hashlib.sha256()
    for top in ("common", "include", "libxcm", "libxcmctl", "tools"):
        for dp, dn, fn in os.walk(os.path.join(root, top)):
            dn[:] = sorted(d for d in dn if d not in (".libs", ".deps"))
            for f in sorted(fn):
                if f.endswith((".c", ".h", ".in")):
                    p = os.path.join(dp, f)
                    if f in ("config.h", "xcm_version.h"):
                        continue
                    h.update(os.path.relpath(p, root).encode())
                    with open(p, "rb") as fh:
                        h.update(fh.read())
    with open(os.path.join(root, "configure.ac"), "rb") as fh:
        h.update(fh.read())
    return h.hexdigest()[:24]


def gen_headers(root):
    gen = os.path.join(BUILD, "gen")
    os.makedirs(gen, exist_ok=True)
    cfg = ("#ifndef VERIF_CONFIG_H\n#define VERIF_CONFIG_H\n"
           "#define XCM_TLS 1\n#define XCM_CTL 1\n#define XCM_CARES 1\n"
           "#define HAVE_ARES_H 1\n#define HAVE_OPENSSL_SSL_H 1\n"
           "#define HAVE_EVENT_H 1\n#endif\n")
    ac = open(os.path.join(root, "configure.ac")).read()

    def m4(name):
        m = re.search(r"m4_define\(\[" + name + r"\],\s*\[?([0-9]+)\]?\)", ac)
        if not m:
            raise SystemExit("cannot parse %s from configure.ac" % name)
        return m.group(1)
    tmpl = open(os.path.join(root, "include/xcm_version.h.in")).read()
    vals = {
        "XCM_ABI_MINOR_VERSION": m4("xcm_abi_minor_version"),
        "XCM_MAJOR_VERSION": m4("xcm_major_version"),
        "XCM_MINOR_VERSION": m4("xcm_minor_version"),
        "XCM_PATCH_VERSION": m4("xcm_patch_version"),
    }
    vals["XCM_ABI_MAJOR_VERSION"] = str(int(vals["XCM_MAJOR_VERSION"]) - 1)
    vals["XCM_VERSION"] = "%s.%s.%s" % (vals["XCM_MAJOR_VERSION"],
                                        vals["XCM_MINOR_VERSION"],
                                        vals["XCM_PATCH_VERSION"])
    vals["XCM_ABI_VERSION"] = "%s.%s" % (vals["XCM_ABI_MAJOR_VERSION"],
                                         vals["XCM_ABI_MINOR_VERSION"])
    ver = re.sub(r"@([A-Z_]+)@", lambda m: vals.get(m.group(1), "0"), tmpl)
    for name, content in (("config.h", cfg), ("xcm_version.h", ver)):
        p = os.path.join(gen, name)
        old = open(p).read() if os.path.exists(p) else None
        if old != content:
            with open(p, "w") as fh:
                fh.write(content)


def run(cmd):
    r = subprocess.run(cmd, stdout=subprocess.PIPE, stderr=subprocess.STDOUT,
                       text=True)
    if r.returncode != 0:
        sys.stderr.write("BUILD FAILED: %s\n%s\n" % (" ".join(cmd), r.stdout))
        raise SystemExit(2)
    return r.stdout


class Lock:
    def __init__(self, name):
        os.makedirs(BUILD, exist_ok=True)
        self.path = os.path.join(BUILD, name + ".lock")

    def __enter__(self):
        self.fh = open(self.path, "w")
        fcntl.flock(self.fh, fcntl.LOCK_EX)

    def __exit__(self, *a):
        fcntl.flock(self.fh, fcntl.LOCK_UN)
        self.fh.close()


def compile_many(jobs):
    """jobs: list of argv lists; run up to 16 in parallel."""
    with ThreadPoolExecutor(max_workers=16) as ex:
        list(ex.map(run, jobs))


def prune(parent, prefix, keep):
    """Remove all but the `keep` most recently used entries named prefix*."""
    try:
        ents = [os.path.join(parent, e) for e in os.listdir(parent) if e.startswith(prefix)]
    except OSError:
        return
    ents.sort(key=lambda p: os.path.getmtime(p), reverse=True)
    for p in ents[keep:]:
        if os.path.isdir(p):
            shutil.rmtree(p, ignore_errors=True)
        else:
            try:
                os.unlink(p)
            except OSError:
                pass


def build_lib(variant):
    """Returns (dir containing libxcm.a/libxcmctl.a/relay objs, tree hash)."""
    root = src_root()
    cc, cflags, _ = VARIANTS[variant]
    with Lock("lib-" + variant):
        gen_headers(root)
        th = tree_hash(root)
        key = hashlib.sha256((th + repr(cflags) + repr(BASE_CFLAGS) + cc)
                             .encode()).hexdigest()[:24]
        # one directory per source-tree content, so that runs against /repo and
        # against scratch trees (XCM_SRC) can proceed concurrently
        d = os.path.join(BUILD, variant, "lib-" + key[:16])
        stamp = os.path.join(d, "stamp")
        if os.path.exists(stamp) and open(stamp).read() == key:
            os.utime(d, None)
            return d, th
        prune(os.path.join(BUILD, variant), "lib-", 8)
        shutil.rmtree(d, ignore_errors=True)
        os.makedirs(d)
        jobs, objs = [], {"xcm": [], "xcmctl": [], "relay": []}
        incs = inc_dirs(root)
        groups = (("xcm", lib_sources(root), []),
                  ("xcmctl", ctl_client_sources(root), ["-DUT_STD_ASSERT"]),
                  ("relay", relay_sources(root), ["-DUT_STD_ASSERT"]))
        for g, srcs, extra in groups:
            for s in srcs:
                o = os.path.join(d, g + "-" + os.path.relpath(s, root)
                                 .replace("/", "_")[:-2] + ".o")
                objs[g].append(o)
                jobs.append([cc] + BASE_CFLAGS + cflags + extra + incs +
                            ["-c", s, "-o", o])
        compile_many(jobs)
        for g in ("xcm", "xcmctl"):
            run(["ar", "rcs", os.path.join(d, "lib%s.a" % g)] + objs[g])
        with open(os.path.join(d, "relay.objs"), "w") as fh:
            fh.write("\n".join(objs["relay"]))
        with open(stamp, "w") as fh:
            fh.write(key)
        return d, th


def file_hash(paths):
    h = hashlib.sha256()
    for p in paths:
        h.update(p.encode())
        with open(p, "rb") as fh:
            h.update(fh.read())
    return h.hexdigest()[:24]


def harness_deps():
    deps = []
    for sub in ("lib", "shim", "stubs", "pki"):
        d = os.path.join(VERIF, sub)
        if os.path.isdir(d):
            for f in sorted(os.listdir(d)):
                if f.endswith((".h", ".hh")):
                    deps.append(os.path.join(d, f))
    return deps


CXXFLAGS = ["-std=gnu++17", "-Wall", "-Wno-unused-function",
            "-Wno-unused-variable", "-D_GNU_SOURCE", "-D" + GUARD + "=1"]


def build_objs(variant, sources, th, extra_flags=()):
    """Compile harness-side sources (C or C++) for a variant; cached by
    content hash of source + all harness headers + tree hash."""
    root = src_root()
    cc, cflags, _ = VARIANTS[variant]
    cxx = CXX if cc == CC else "g++"
    hdr_hash = file_hash(harness_deps())
    d = os.path.join(BUILD, variant, "obj")
    os.makedirs(d, exist_ok=True)
    incs = inc_dirs(root) + ["-I" + os.path.join(VERIF, s)
                             for s in ("lib", "shim", "stubs", "pki")]
    jobs, objs = [], []
    for s in sources:
        is_c = s.endswith(".c")
        key = hashlib.sha256((file_hash([s]) + hdr_hash + th + repr(cflags) +
                              repr(extra_flags)).encode()).hexdigest()[:16]
        base = os.path.basename(s).rsplit(".", 1)[0]
        o = os.path.join(d, "%s-%s.o" % (base, key))
        objs.append(o)
        if os.path.exists(o):
            os.utime(o, None)
            continue
        prune(d, base + "-", 10)
        if is_c:
            cmd = [cc] + BASE_CFLAGS + cflags
        else:
            cmd = [cxx] + CXXFLAGS + cflags
        jobs.append(cmd + list(extra_flags) + incs + ["-c", s, "-o", o + ".tmp"])
    compile_many(jobs)
    for j in jobs:
        os.replace(j[-1], j[-1][:-4])
    return objs


def build_exe(name, variant, sources, libs=("xcm",), ldlibs=(), relay=False,
              extra_flags=()):
    """Build /verif/build/<variant>/bin/<name> from harness sources + the
    static XCM archive of the variant.  Returns the path."""
    libdir, th = build_lib(variant)
    cc, cflags, ldflags = VARIANTS[variant]
    cxx = CXX if cc == CC else "g++"
    with Lock("exe-%s-%s" % (variant, name)):
        objs = build_objs(variant, sources, th, extra_flags)
        bind = os.path.join(BUILD, variant, "bin")
        os.makedirs(bind, exist_ok=True)
        key = hashlib.sha256((repr(objs) + th + repr(ldlibs) + repr(libs))
                             .encode()).hexdigest()[:24]
        exe = os.path.join(bind, "%s.%s" % (name, key[:12]))
        stamp = exe + ".stamp"
        if os.path.exists(exe) and os.path.exists(stamp) and \
                open(stamp).read() == key:
            os.utime(exe, None)
            return exe
        prune(bind, name + ".", 12)
        extra = []
        if relay:
            extra += open(os.path.join(libdir, "relay.objs")).read().split()
        cmd = [cxx] + ldflags + ["-o", exe] + objs + extra
        # whole-archive so that constructors registering transports are kept
        cmd += ["-Wl,--whole-archive"]
        cmd += [os.path.join(libdir, "lib%s.a" % l) for l in libs]
        cmd += ["-Wl,--no-whole-archive"]
        cmd += list(ldlibs) + ["-lssl", "-lcrypto", "-lcares", "-ldl",
                               "-lpthread", "-lrt"]
        if relay:
            cmd += ["-levent"]
        run(cmd)
        with open(stamp, "w") as fh:
            fh.write(key)
        return exe


def build_relay(variant="plain"):
    """The real xcmrelay tool, built from the tree, linked statically with
    the tree's libxcm."""
    libdir, th = build_lib(variant)
    cc, cflags, ldflags = VARIANTS[variant]
    with Lock("exe-%s-xcmrelay" % variant):
        bind = os.path.join(BUILD, variant, "bin")
        os.makedirs(bind, exist_ok=True)
        exe = os.path.join(bind, "xcmrelay." + th[:12])
        stamp = exe + ".stamp"
        if os.path.exists(exe) and os.path.exists(stamp) and \
                open(stamp).read() == th:
            os.utime(exe, None)
            return exe
        prune(bind, "xcmrelay.", 12)
        objs = open(os.path.join(libdir, "relay.objs")).read().split()
        run([cc] + ldflags + ["-o", exe] + objs +
            ["-Wl,--whole-archive", os.path.join(libdir, "libxcm.a"),
             "-Wl,--no-whole-archive", "-lssl", "-lcrypto", "-lcares",
             "-levent", "-ldl", "-lpthread", "-lrt"])
        with open(stamp, "w") as fh:
            fh.write(th)
        return exe


def build_relay_asan():
    """The relay under ASan/UBSan: a memory error in the relay ends it with exit status 99."""
    return build_relay("asan")


if __name__ == "__main__":
    v = sys.argv[1] if len(sys.argv) > 1 else "asan"
    d, th = build_lib(v)
    print(d, th)
