/* Scripted resolver (see ares_stub.c). */
#ifndef VERIF_ARES_STUB_H
#define VERIF_ARES_STUB_H
#ifdef __cplusplus
extern "C" {
#endif

enum as_mode { AS_OK = 0, AS_NOTFOUND = 1, AS_SILENT = 2 };
#define AS_MAX_ADDRS 48

void as_reset(void);
/* answer queries for `name` with the given addresses (text, v4 or v6), after
 * delay_ms (0 = from inside ares_getaddrinfo, as c-ares does for /etc/hosts) */
void as_script(const char *name, int mode, int delay_ms, const char *const *addrs, int naddrs);
int as_queries(void);
int as_answered(void);
int as_pending(void);

#ifdef __cplusplus
}
#endif
#endif
