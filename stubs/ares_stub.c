/* Scripted resolver: link-time replacement of the c-ares entry points XCM
 * uses.  Names that have a script are answered by the stub (immediately, after
 * a delay, with a failure, or never); every other name goes to the real
 * c-ares (dlsym RTLD_NEXT), so literals and /etc/hosts keep working. */
#define _GNU_SOURCE
#include "ares_stub.h"

#include <ares.h>
#include <arpa/inet.h>
#include <dlfcn.h>
#include <fcntl.h>
#include <sys/select.h>
#include <unistd.h>
#include <netinet/in.h>
#include <pthread.h>
#include <stdlib.h>
#include <string.h>
#include <sys/socket.h>
#include <time.h>

#define MAX_SCRIPTS 32
#define MAX_PENDING 64
#define STUB_MAGIC 0x5a17ab1e

struct script {
    char name[256];
    int mode;
    int delay_ms;
    int naddrs;
    char addrs[AS_MAX_ADDRS][48];
};

struct pending {
    int used;
    ares_channel channel;
    struct script sc;
    double deadline;
    ares_addrinfo_callback cb;
    void *arg;
};

struct stub_ai {
    struct ares_addrinfo ai;
    unsigned magic;
    int n;
    struct ares_addrinfo_node nodes[AS_MAX_ADDRS];
    struct sockaddr_storage sa[AS_MAX_ADDRS];
};

static struct script scripts[MAX_SCRIPTS];
static int nscripts;
static struct pending pend[MAX_PENDING];
static pthread_mutex_t mu = PTHREAD_MUTEX_INITIALIZER;
static int g_queries, g_answered, g_in_flight_peak;

static double now(void)
{
    struct timespec ts;
    clock_gettime(CLOCK_MONOTONIC, &ts);
    return ts.tv_sec + ts.tv_nsec / 1e9;
}

void as_reset(void)
{
    pthread_mutex_lock(&mu);
    nscripts = 0;
    g_queries = g_answered = 0;
    pthread_mutex_unlock(&mu);
}

void as_script(const char *name, int mode, int delay_ms, const char *const *addrs, int naddrs)
{
    pthread_mutex_lock(&mu);
    struct script *s = NULL;
    for (int i = 0; i < nscripts; i++)
        if (!strcmp(scripts[i].name, name)) s = &scripts[i];
    if (!s && nscripts < MAX_SCRIPTS) s = &scripts[nscripts++];
    if (s) {
        memset(s, 0, sizeof(*s));
        strncpy(s->name, name, sizeof(s->name) - 1);
        s->mode = mode;
        s->delay_ms = delay_ms;
        s->naddrs = naddrs > AS_MAX_ADDRS ? AS_MAX_ADDRS : naddrs;
        for (int i = 0; i < s->naddrs; i++) strncpy(s->addrs[i], addrs[i], sizeof(s->addrs[i]) - 1);
    }
    pthread_mutex_unlock(&mu);
}

int as_queries(void) { return g_queries; }
int as_answered(void) { return g_answered; }
int as_pending(void)
{
    int n = 0;
    pthread_mutex_lock(&mu);
    for (int i = 0; i < MAX_PENDING; i++) n += pend[i].used;
    pthread_mutex_unlock(&mu);
    return n;
}

static int find_script(const char *name, struct script *out)
{
    int found = 0;
    pthread_mutex_lock(&mu);
    for (int i = 0; i < nscripts; i++)
        if (!strcasecmp(scripts[i].name, name)) {
            *out = scripts[i];
            found = 1;
        }
    pthread_mutex_unlock(&mu);
    return found;
}

static void answer(const struct script *sc, ares_addrinfo_callback cb, void *arg)
{
    __sync_fetch_and_add(&g_answered, 1);
    if (sc->mode == AS_NOTFOUND || sc->naddrs == 0) {
        cb(arg, ARES_ENOTFOUND, 0, NULL);
        return;
    }
    struct stub_ai *r = calloc(1, sizeof(*r));
    r->magic = STUB_MAGIC;
    int n = 0;
    for (int i = 0; i < sc->naddrs; i++) {
        struct ares_addrinfo_node *nd = &r->nodes[n];
        struct sockaddr_in *a4 = (struct sockaddr_in *)&r->sa[n];
        struct sockaddr_in6 *a6 = (struct sockaddr_in6 *)&r->sa[n];
        if (inet_pton(AF_INET, sc->addrs[i], &a4->sin_addr) == 1) {
            a4->sin_family = AF_INET;
            nd->ai_family = AF_INET;
            nd->ai_addrlen = sizeof(*a4);
        } else if (inet_pton(AF_INET6, sc->addrs[i], &a6->sin6_addr) == 1) {
            a6->sin6_family = AF_INET6;
            nd->ai_family = AF_INET6;
            nd->ai_addrlen = sizeof(*a6);
        } else
            continue;
        nd->ai_socktype = SOCK_STREAM;
        nd->ai_addr = (struct sockaddr *)&r->sa[n];
        nd->ai_next = NULL;
        if (n > 0) r->nodes[n - 1].ai_next = nd;
        n++;
    }
    r->n = n;
    if (n == 0) {
        free(r);
        cb(arg, ARES_ENOTFOUND, 0, NULL);
        return;
    }
    r->ai.nodes = &r->nodes[0];
    cb(arg, ARES_SUCCESS, 0, &r->ai);
}

void ares_getaddrinfo(ares_channel channel, const char *name, const char *service,
                      const struct ares_addrinfo_hints *hints, ares_addrinfo_callback cb, void *arg)
{
    static void (*real)(ares_channel, const char *, const char *, const struct ares_addrinfo_hints *,
                        ares_addrinfo_callback, void *);
    struct script sc;
    if (!name || !find_script(name, &sc)) {
        if (!real) real = dlsym(RTLD_NEXT, "ares_getaddrinfo");
        real(channel, name, service, hints, cb, arg);
        return;
    }
    __sync_fetch_and_add(&g_queries, 1);
    if (sc.mode != AS_SILENT && sc.delay_ms <= 0) {
        answer(&sc, cb, arg);
        return;
    }
    pthread_mutex_lock(&mu);
    int np = 0;
    for (int i = 0; i < MAX_PENDING; i++) {
        if (!pend[i].used && np >= 0) {
            pend[i].used = 1;
            pend[i].channel = channel;
            pend[i].sc = sc;
            pend[i].deadline = now() + sc.delay_ms / 1000.0;
            pend[i].cb = cb;
            pend[i].arg = arg;
            np = -1;
        }
    }
    pthread_mutex_unlock(&mu);
}

static struct pending *chan_pending(ares_channel channel)
{
    for (int i = 0; i < MAX_PENDING; i++)
        if (pend[i].used && pend[i].channel == channel) return &pend[i];
    return NULL;
}

/* A resolver that waits for an answer has a socket open towards its server.  The scripted
 * queries present one too: a descriptor that never becomes readable (the read end of a pipe
 * nobody writes to), so that code which sleeps on the resolver's sockets - select() with
 * ares_timeout(), the c-ares textbook loop - really sleeps. */
static int waiting_fd(void)
{
    static int fds[2] = {-1, -1};
    if (fds[0] < 0 && pipe2(fds, O_NONBLOCK | O_CLOEXEC) < 0) return -1;
    return fds[0];
}

int ares_getsock(ares_channel channel, ares_socket_t *socks, int numsocks)
{
    static int (*real)(ares_channel, ares_socket_t *, int);
    pthread_mutex_lock(&mu);
    struct pending *p = chan_pending(channel);
    pthread_mutex_unlock(&mu);
    if (p) {
        int fd = waiting_fd();
        if (fd < 0 || numsocks < 1) return 0;
        socks[0] = fd;
        return 1; /* ARES_GETSOCK_READABLE(bits, 0) */
    }
    if (!real) real = dlsym(RTLD_NEXT, "ares_getsock");
    return real(channel, socks, numsocks);
}

int ares_fds(ares_channel channel, fd_set *read_fds, fd_set *write_fds)
{
    static int (*real)(ares_channel, fd_set *, fd_set *);
    pthread_mutex_lock(&mu);
    struct pending *p = chan_pending(channel);
    pthread_mutex_unlock(&mu);
    if (p) {
        int fd = waiting_fd();
        if (fd < 0) return 0;
        FD_SET(fd, read_fds);
        return fd + 1;
    }
    if (!real) real = dlsym(RTLD_NEXT, "ares_fds");
    return real(channel, read_fds, write_fds);
}

struct timeval *ares_timeout(ares_channel channel, struct timeval *maxtv, struct timeval *tv)
{
    static struct timeval *(*real)(ares_channel, struct timeval *, struct timeval *);
    pthread_mutex_lock(&mu);
    struct pending *p = chan_pending(channel);
    double left = -1;
    if (p) left = p->sc.mode == AS_SILENT ? 0.5 : p->deadline - now();
    pthread_mutex_unlock(&mu);
    if (p) {
        if (left < 0.001) left = 0.001;
        tv->tv_sec = (long)left;
        tv->tv_usec = (long)((left - (long)left) * 1e6);
        return tv;
    }
    if (!real) real = dlsym(RTLD_NEXT, "ares_timeout");
    return real(channel, maxtv, tv);
}

static void fire(ares_channel channel)
{
    for (;;) {
        struct pending cp;
        int have = 0;
        pthread_mutex_lock(&mu);
        for (int i = 0; i < MAX_PENDING && !have; i++)
            if (pend[i].used && pend[i].channel == channel && pend[i].sc.mode != AS_SILENT &&
                now() >= pend[i].deadline) {
                cp = pend[i];
                pend[i].used = 0;
                have = 1;
            }
        pthread_mutex_unlock(&mu);
        if (!have) return;
        answer(&cp.sc, cp.cb, cp.arg);
    }
}

void ares_process(ares_channel channel, fd_set *r, fd_set *w)
{
    static void (*real)(ares_channel, fd_set *, fd_set *);
    fire(channel);
    if (!real) real = dlsym(RTLD_NEXT, "ares_process");
    real(channel, r, w);
}

void ares_process_fd(ares_channel channel, ares_socket_t rfd, ares_socket_t wfd)
{
    static void (*real)(ares_channel, ares_socket_t, ares_socket_t);
    fire(channel);
    if (!real) real = dlsym(RTLD_NEXT, "ares_process_fd");
    real(channel, rfd, wfd);
}

void ares_freeaddrinfo(struct ares_addrinfo *ai)
{
    static void (*real)(struct ares_addrinfo *);
    if (ai && ((struct stub_ai *)ai)->magic == STUB_MAGIC && ai->nodes == &((struct stub_ai *)ai)->nodes[0]) {
        free(ai);
        return;
    }
    if (!real) real = dlsym(RTLD_NEXT, "ares_freeaddrinfo");
    real(ai);
}

void ares_destroy(ares_channel channel)
{
    static void (*real)(ares_channel);
    for (;;) {
        struct pending cp;
        int have = 0;
        pthread_mutex_lock(&mu);
        for (int i = 0; i < MAX_PENDING && !have; i++)
            if (pend[i].used && pend[i].channel == channel) {
                cp = pend[i];
                pend[i].used = 0;
                have = 1;
            }
        pthread_mutex_unlock(&mu);
        if (!have) break;
        cp.cb(cp.arg, ARES_EDESTRUCTION, 0, NULL);
    }
    if (!real) real = dlsym(RTLD_NEXT, "ares_destroy");
    real(channel);
}
