#!/usr/bin/env python3
"""MANIFEST.setup_cmd: build every harness once, offline, from files on disk."""
import os
import sys
import importlib.util

VERIF = os.path.dirname(os.path.abspath(__file__))
sys.path.insert(0, VERIF)
import build  # noqa: E402
from checks import CHECKS  # noqa: E402

spec = importlib.util.spec_from_loader("check", loader=None)


def main():
    os.makedirs(os.path.join(VERIF, "evidence"), exist_ok=True)
    for pid, cfg in sorted(CHECKS.items()):
        srcs = [os.path.join(VERIF, "lib", "vf_main.cc")]
        srcs += [os.path.join(VERIF, s) for s in cfg["sources"]]
        exe = build.build_exe(cfg["harness"], cfg.get("variant", "asan"), srcs,
                              libs=cfg.get("libs", ("xcm",)),
                              ldlibs=["-lrapidcheck"] + list(cfg.get("ldlibs", ())),
                              relay=cfg.get("relay", False))
        print("built", pid, exe)
        for extra in cfg.get("prebuild", ()):
            print("built", getattr(build, extra[1])())
    return 0


if __name__ == "__main__":
    sys.exit(main())
