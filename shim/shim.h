/* Lower-layer shim: link-time interposition of the libc calls through which
 * XCM reaches the kernel.  Linked into harness executables together with the
 * static XCM objects, so every XCM call binds here.  Forwards to the real
 * functions (dlsym RTLD_NEXT) unless a script says otherwise.
 *
 * Soundness rules: only does what a Linux kernel may do on that socket type;
 * refusals are finite; descriptors not created inside an XCM call are passed
 * through untouched. */
#ifndef VERIF_SHIM_H
#define VERIF_SHIM_H
#include <stddef.h>
#include <stdint.h>
#ifdef __cplusplus
extern "C" {
#endif

enum sh_dir { SH_SEND = 0, SH_RECV = 1, SH_CONN = 2 };
enum sh_kind {
    SH_PASS = 0,   /* arg = max bytes handed to / asked from the kernel (>=1) */
    SH_EAGAIN = 1, /* refuse, transfer nothing */
    SH_FAIL = 2,   /* arg = errno; the call fails without touching the kernel */
    SH_EOF = 3,    /* recv only: report orderly shutdown */
    SH_DELAY = 4   /* conn only: report "still in progress" */
};

#define SH_MAX_TAGS 512

struct sh_counters {
    uint64_t send_calls, send_short, send_eagain_inj, send_eagain_real, send_fail_inj;
    uint64_t send_bytes;
    uint64_t recv_calls, recv_short, recv_eagain_inj, recv_eagain_real, recv_fail_inj;
    uint64_t recv_bytes;
    uint64_t recv_lt4;         /* recv calls that asked for < 4 bytes (split header) */
    uint64_t conn_delays, conn_fail_inj;
    uint64_t connect_calls;
};

/* Everything below is process global; call sh_reset() at the start of a case */
void sh_reset(void);

/* Mark the calling thread as being inside an XCM API call made on behalf of
 * the XCM socket `tag`; descriptors created meanwhile belong to that tag.
 * `nonblocking` = the socket is in non-blocking mode (C05 monitor). */
void sh_enter(int tag, int nonblocking);
void sh_leave(void);
int sh_inside(void);

void sh_push(int tag, enum sh_dir dir, enum sh_kind kind, int arg);
void sh_clear(int tag);
int sh_script_left(int tag, enum sh_dir dir);
const struct sh_counters *sh_cnt(int tag);

/* the connection's kernel socket (connected stream / seqpacket socket created
 * inside XCM for this tag, most recent), or -1 */
int sh_data_fd(int tag);
/* 1 if a TCP socket of the tag is in a connect() whose completion the library
 * has not yet observed (SO_ERROR not read) */
int sh_connect_unobserved(int tag);
/* listening socket(s) of a tag */
int sh_listen_fd(int tag, int idx);
/* move ownership of all fds of tag `from` to tag `to` */
void sh_retag(int from, int to);

/* SO_SNDBUF/SO_RCVBUF applied to TCP sockets the library creates (0 = leave) */
void sh_set_bufsizes(int sndbuf, int rcvbuf);
/* value (ms) handed to the kernel instead of the library's TCP_USER_TIMEOUT
 * (0 = pass through); the library's own value is still logged. Not reset. */
void sh_override_user_timeout(int ms);

/* ---- one-shot faults (C06): the n-th (1-based) send()/recv() from now on a
 * descriptor of `tag` fails with `err` without touching the kernel */
void sh_fail_io_at(int tag, enum sh_dir dir, int n, int err);
int sh_io_fault_hits(void);
/* total number of bytes send() may still hand to the kernel on TCP sockets of
 * `tag` (then EAGAIN); negative = unlimited */
void sh_send_budget(int tag, long nbytes);
long sh_send_budget_left(int tag);
/* the next connect() on a TCP socket of `tag` fails at once with `err` */
void sh_fail_next_connect(int tag, int err);

/* ---- blocking-wait interruption (C03): the n-th (1-based) poll() with a
 * non-zero timeout issued inside an XCM call from now on returns -1/EINTR. */
void sh_eintr_at(int n);
int sh_blocking_polls(void); /* number of such polls seen since sh_reset */

/* ---- resource faults (C08): the n-th (1-based) resource-creating call made
 * inside an XCM call from now on fails with `err`. 0 = off. */
void sh_fail_resource_at(int n, int err);
/* a second fault in the same run: the n-th resource call fails too, with an errno plausible for that call */
void sh_fail_resource_at2(int n, int skip_eventfd);
int sh_resource_fault2_hit(void);
const char *sh_resource_fault2_name(void);
int sh_resource_calls(void);
const char *sh_resource_call_name(int idx); /* 0-based, since sh_reset */
int sh_resource_fault_hit(void);

/* ---- monitors */
/* C05: number of sleeping primitives / blocking-socket I/O observed while a
 * thread was inside a non-blocking XCM call; description of the first */
int sh_sleep_violations(void);
const char *sh_sleep_violation_text(void);
/* C08: close()/epoll_ctl() inside XCM on a descriptor the library did not
 * create (or already closed) */
int sh_foreign_ops(void);
const char *sh_foreign_op_text(void);
/* number of descriptors currently open that were created inside XCM calls */
int sh_lib_fds_open(void);

/* connect() targets seen (C13), in order */
int sh_connect_log_len(void);
const char *sh_connect_log(int idx); /* "ip port" text */

/* last value given to setsockopt(level,opt) on any fd of the tag; returns 0
 * if never set */
int sh_last_sockopt(int tag, int level, int opt, int *value);
uint64_t sh_setsockopt_calls(void);

#ifdef __cplusplus
}
#endif
#endif
