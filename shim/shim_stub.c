/* No-op implementation of the shim's control API, for harnesses that must not
 * interpose anything (C15: the ThreadSanitizer build observes the library's own
 * synchronisation only). */
#include "shim.h"
#include <stddef.h>

static struct sh_counters zero;
void sh_reset(void) {}
void sh_enter(int tag, int nonblocking) { (void)tag; (void)nonblocking; }
void sh_leave(void) {}
int sh_inside(void) { return 0; }
void sh_push(int tag, enum sh_dir dir, enum sh_kind kind, int arg) { (void)tag; (void)dir; (void)kind; (void)arg; }
void sh_clear(int tag) { (void)tag; }
int sh_script_left(int tag, enum sh_dir dir) { (void)tag; (void)dir; return 0; }
const struct sh_counters *sh_cnt(int tag) { (void)tag; return &zero; }
int sh_data_fd(int tag) { (void)tag; return -1; }
int sh_connect_unobserved(int tag) { (void)tag; return 0; }
int sh_listen_fd(int tag, int idx) { (void)tag; (void)idx; return -1; }
void sh_retag(int from, int to) { (void)from; (void)to; }
void sh_set_bufsizes(int sndbuf, int rcvbuf) { (void)sndbuf; (void)rcvbuf; }
void sh_override_user_timeout(int ms) { (void)ms; }
void sh_fail_io_at(int tag, enum sh_dir dir, int n, int err) { (void)tag; (void)dir; (void)n; (void)err; }
int sh_io_fault_hits(void) { return 0; }
void sh_send_budget(int tag, long nbytes) { (void)tag; (void)nbytes; }
long sh_send_budget_left(int tag) { (void)tag; return -1; }
void sh_fail_next_connect(int tag, int err) { (void)tag; (void)err; }
void sh_eintr_at(int n) { (void)n; }
int sh_blocking_polls(void) { return 0; }
void sh_fail_resource_at(int n, int err) { (void)n; (void)err; }
void sh_fail_resource_at2(int n, int skip) { (void)n; (void)skip; }
int sh_resource_fault2_hit(void) { return 0; }
const char *sh_resource_fault2_name(void) { return ""; }
int sh_resource_calls(void) { return 0; }
const char *sh_resource_call_name(int idx) { (void)idx; return "?"; }
int sh_resource_fault_hit(void) { return 0; }
int sh_sleep_violations(void) { return 0; }
const char *sh_sleep_violation_text(void) { return ""; }
int sh_foreign_ops(void) { return 0; }
const char *sh_foreign_op_text(void) { return ""; }
int sh_lib_fds_open(void) { return 0; }
int sh_connect_log_len(void) { return 0; }
const char *sh_connect_log(int idx) { (void)idx; return ""; }
int sh_last_sockopt(int tag, int level, int opt, int *value) { (void)tag; (void)level; (void)opt; (void)value; return 0; }
uint64_t sh_setsockopt_calls(void) { return 0; }
