#define _GNU_SOURCE
#include "shim.h"

#include <arpa/inet.h>
#include <dlfcn.h>
#include <errno.h>
#include <fcntl.h>
#include <netinet/in.h>
#include <netinet/tcp.h>
#include <poll.h>
#include <pthread.h>
#include <signal.h>
#include <stdarg.h>
#include <stdio.h>
#include <stdlib.h>
#include <string.h>
#include <sys/epoll.h>
#include <sys/eventfd.h>
#include <sys/ioctl.h>
#include <sys/select.h>
#include <sys/socket.h>
#include <sys/timerfd.h>
#include <sys/un.h>
#include <time.h>
#include <unistd.h>

#define MAXFD 8192
#define MAXSCRIPT 4096

enum fdkind { K_NONE = 0, K_TCP, K_UNIX, K_EPOLL, K_EVENTFD, K_TIMERFD, K_OTHER };

struct fdinfo {
    int used;      /* created inside an XCM call and not yet closed */
    int tag;
    enum fdkind kind;
    int listening;
    int connecting; /* connect() returned EINPROGRESS / in flight */
    int connected;
    int inj_so_error; /* errno to hand out at the next getsockopt(SO_ERROR) */
    int seq;
};

struct directive { int kind; int arg; };
struct script {
    struct directive d[MAXSCRIPT];
    int head, tail;
};

static struct fdinfo fds[MAXFD];
static struct script *scripts[SH_MAX_TAGS][3];
static struct sh_counters cnts[SH_MAX_TAGS];
static pthread_mutex_t mu = PTHREAD_MUTEX_INITIALIZER;
static int fd_seq;

static __thread int t_inside;
static __thread int t_tag;
static __thread int t_nonblock;

static int g_sndbuf, g_rcvbuf;
static int g_user_timeout_override; /* ms; 0 = pass the library's value through */

/* C06: one-shot I/O fault per tag and direction, send byte budget, connect fault */
static int g_io_fail_n[SH_MAX_TAGS][2], g_io_fail_errno[SH_MAX_TAGS][2];
static int g_io_fault_hits;
static int g_budget_on[SH_MAX_TAGS];
static long g_budget[SH_MAX_TAGS];
static int g_connect_fail_errno[SH_MAX_TAGS];

static int g_eintr_at, g_blocking_polls;
static int g_fail_res_at, g_fail_res_errno, g_res_calls, g_res_fault_hit;
static int g_fail_res_at2, g_fail_res2_skip_eventfd, g_res_fault2_hit;
static char g_res_fault2_name[32];
#define MAXRES 512
static const char *g_res_names[MAXRES];

static int g_sleep_viol;
static char g_sleep_text[256];
static int g_foreign;
static char g_foreign_text[256];

#define MAXCONNLOG 256
static char g_connlog[MAXCONNLOG][80];
static int g_connlog_len;

struct sockopt_rec { int tag, level, opt, value; };
#define MAXSOCKOPT 2048
static struct sockopt_rec g_sockopts[MAXSOCKOPT];
static int g_sockopt_len;
static uint64_t g_setsockopt_calls;

/* ---------------------------------------------------------------- real fns */
#define REAL(name) real_##name
#define DECL_REAL(ret, name, ...)                                   \
    static ret (*real_##name)(__VA_ARGS__);                         \
    static void resolve_##name(void)                                \
    {                                                               \
        if (!real_##name) real_##name = dlsym(RTLD_NEXT, #name);    \
    }

DECL_REAL(int, socket, int, int, int)
DECL_REAL(int, accept4, int, struct sockaddr *, socklen_t *, int)
DECL_REAL(int, accept, int, struct sockaddr *, socklen_t *)
DECL_REAL(int, connect, int, const struct sockaddr *, socklen_t)
DECL_REAL(int, bind, int, const struct sockaddr *, socklen_t)
DECL_REAL(int, listen, int, int)
DECL_REAL(int, close, int)
DECL_REAL(ssize_t, send, int, const void *, size_t, int)
DECL_REAL(ssize_t, recv, int, void *, size_t, int)
DECL_REAL(ssize_t, sendmsg, int, const struct msghdr *, int)
DECL_REAL(ssize_t, recvmsg, int, struct msghdr *, int)
DECL_REAL(int, poll, struct pollfd *, nfds_t, int)
DECL_REAL(int, ppoll, struct pollfd *, nfds_t, const struct timespec *, const sigset_t *)
DECL_REAL(int, select, int, fd_set *, fd_set *, fd_set *, struct timeval *)
DECL_REAL(int, epoll_wait, int, struct epoll_event *, int, int)
DECL_REAL(int, epoll_pwait, int, struct epoll_event *, int, int, const sigset_t *)
DECL_REAL(int, epoll_create1, int)
DECL_REAL(int, epoll_ctl, int, int, int, struct epoll_event *)
DECL_REAL(int, eventfd, unsigned int, int)
DECL_REAL(int, timerfd_create, int, int)
DECL_REAL(int, setsockopt, int, int, int, const void *, socklen_t)
DECL_REAL(int, getsockopt, int, int, int, void *, socklen_t *)
DECL_REAL(int, nanosleep, const struct timespec *, struct timespec *)
DECL_REAL(int, clock_nanosleep, clockid_t, int, const struct timespec *, struct timespec *)
DECL_REAL(int, usleep, useconds_t)
DECL_REAL(unsigned int, sleep, unsigned int)
DECL_REAL(FILE *, fopen, const char *, const char *)

/* ----------------------------------------------------------------- helpers */
static void lock(void) { pthread_mutex_lock(&mu); }
static void unlock(void) { pthread_mutex_unlock(&mu); }

static int valid_tag(int tag) { return tag >= 0 && tag < SH_MAX_TAGS; }

static void track_new(int fd, enum fdkind kind)
{
    if (fd < 0 || fd >= MAXFD) return;
    lock();
    memset(&fds[fd], 0, sizeof(fds[fd]));
    fds[fd].used = 1;
    fds[fd].tag = t_tag;
    fds[fd].kind = kind;
    fds[fd].seq = ++fd_seq;
    unlock();
}

static int pop(int tag, int dir, struct directive *out)
{
    int got = 0;
    if (!valid_tag(tag)) return 0;
    lock();
    struct script *s = scripts[tag][dir];
    if (s && s->head != s->tail) {
        *out = s->d[s->head];
        s->head = (s->head + 1) % MAXSCRIPT;
        got = 1;
    }
    unlock();
    return got;
}

/* a resource-creating call inside XCM: returns errno to inject or 0 */
static int resource_call(const char *name)
{
    if (!t_inside) return 0;
    int inj = 0;
    lock();
    if (g_res_calls < MAXRES) g_res_names[g_res_calls] = name;
    g_res_calls++;
    if (g_fail_res_at > 0 && --g_fail_res_at == 0) {
        inj = g_fail_res_errno;
        g_res_fault_hit = 1;
    }
    if (g_fail_res_at2 > 0 && --g_fail_res_at2 == 0 && !inj) {
        /* second fault of a pair: an errno that is plausible for whichever call it lands on */
        int fdmaker = !strcmp(name, "socket") || !strcmp(name, "accept4") || !strcmp(name, "epoll_create1") ||
                      !strcmp(name, "eventfd") || !strcmp(name, "timerfd_create") || !strcmp(name, "fopen");
        if (!strcmp(name, "eventfd") && g_fail_res2_skip_eventfd) inj = 0;
        else inj = fdmaker ? EMFILE : !strcmp(name, "connect") ? ECONNREFUSED : EADDRINUSE;
        if (inj) { g_res_fault2_hit = 1; snprintf(g_res_fault2_name, sizeof(g_res_fault2_name), "%s", name); }
    }
    unlock();
    return inj;
}

static void sleep_violation(const char *what, long arg)
{
    lock();
    if (g_sleep_viol++ == 0)
        snprintf(g_sleep_text, sizeof(g_sleep_text), "%s (arg %ld) inside a non-blocking XCM call on socket tag %d",
                 what, arg, t_tag);
    unlock();
}

static void foreign_op(const char *what, int fd)
{
    lock();
    if (g_foreign++ == 0)
        snprintf(g_foreign_text, sizeof(g_foreign_text), "%s on fd %d which the library did not create (or already closed), tag %d",
                 what, fd, t_tag);
    unlock();
}

static int is_lib_fd(int fd) { return fd >= 0 && fd < MAXFD && fds[fd].used; }

static int fd_nonblocking(int fd)
{
    int fl = fcntl(fd, F_GETFL, 0);
    return fl >= 0 && (fl & O_NONBLOCK);
}

/* ------------------------------------------------------------------ control */
void sh_reset(void)
{
    lock();
    for (int t = 0; t < SH_MAX_TAGS; t++)
        for (int d = 0; d < 3; d++)
            if (scripts[t][d]) scripts[t][d]->head = scripts[t][d]->tail = 0;
    memset(cnts, 0, sizeof(cnts));
    g_eintr_at = g_blocking_polls = 0;
    g_fail_res_at = g_fail_res_errno = g_res_calls = g_res_fault_hit = 0;
    g_fail_res_at2 = g_res_fault2_hit = 0;
    memset(g_io_fail_n, 0, sizeof(g_io_fail_n));
    memset(g_budget_on, 0, sizeof(g_budget_on));
    memset(g_connect_fail_errno, 0, sizeof(g_connect_fail_errno));
    g_io_fault_hits = 0;
    g_sleep_viol = 0; g_sleep_text[0] = 0;
    g_foreign = 0; g_foreign_text[0] = 0;
    g_connlog_len = 0;
    g_sockopt_len = 0;
    g_setsockopt_calls = 0;
    unlock();
}

void sh_enter(int tag, int nonblocking)
{
    t_inside++;
    t_tag = tag;
    t_nonblock = nonblocking;
}
void sh_leave(void) { if (t_inside > 0) t_inside--; }
int sh_inside(void) { return t_inside; }

void sh_push(int tag, enum sh_dir dir, enum sh_kind kind, int arg)
{
    if (!valid_tag(tag)) return;
    lock();
    if (!scripts[tag][dir]) scripts[tag][dir] = calloc(1, sizeof(struct script));
    struct script *s = scripts[tag][dir];
    int nt = (s->tail + 1) % MAXSCRIPT;
    if (nt != s->head) {
        s->d[s->tail].kind = kind;
        s->d[s->tail].arg = arg;
        s->tail = nt;
    }
    unlock();
}

void sh_clear(int tag)
{
    if (!valid_tag(tag)) return;
    lock();
    for (int d = 0; d < 3; d++)
        if (scripts[tag][d]) scripts[tag][d]->head = scripts[tag][d]->tail = 0;
    unlock();
}

int sh_script_left(int tag, enum sh_dir dir)
{
    if (!valid_tag(tag)) return 0;
    lock();
    struct script *s = scripts[tag][dir];
    int n = s ? (s->tail - s->head + MAXSCRIPT) % MAXSCRIPT : 0;
    unlock();
    return n;
}

const struct sh_counters *sh_cnt(int tag)
{
    static struct sh_counters zero;
    return valid_tag(tag) ? &cnts[tag] : &zero;
}

int sh_data_fd(int tag)
{
    int best = -1, bseq = -1;
    lock();
    for (int fd = 0; fd < MAXFD; fd++)
        if (fds[fd].used && fds[fd].tag == tag && !fds[fd].listening &&
            (fds[fd].kind == K_TCP || fds[fd].kind == K_UNIX) &&
            (fds[fd].connected || fds[fd].connecting) && fds[fd].seq > bseq) {
            best = fd;
            bseq = fds[fd].seq;
        }
    unlock();
    return best;
}

int sh_connect_unobserved(int tag)
{
    int r = 0;
    lock();
    for (int fd = 0; fd < MAXFD; fd++)
        if (fds[fd].used && fds[fd].tag == tag && fds[fd].kind == K_TCP && fds[fd].connecting && !fds[fd].connected) r = 1;
    unlock();
    return r;
}

int sh_listen_fd(int tag, int idx)
{
    int r = -1;
    lock();
    for (int fd = 0; fd < MAXFD; fd++)
        if (fds[fd].used && fds[fd].tag == tag && fds[fd].listening && idx-- == 0) {
            r = fd;
            break;
        }
    unlock();
    return r;
}

void sh_retag(int from, int to)
{
    lock();
    for (int fd = 0; fd < MAXFD; fd++)
        if (fds[fd].used && fds[fd].tag == from) fds[fd].tag = to;
    unlock();
}

void sh_set_bufsizes(int sndbuf, int rcvbuf) { g_sndbuf = sndbuf; g_rcvbuf = rcvbuf; }
void sh_override_user_timeout(int ms) { g_user_timeout_override = ms; }

void sh_fail_io_at(int tag, enum sh_dir dir, int n, int err)
{
    if (!valid_tag(tag) || dir > SH_RECV) return;
    lock();
    g_io_fail_n[tag][dir] = n;
    g_io_fail_errno[tag][dir] = err;
    unlock();
}
int sh_io_fault_hits(void) { return g_io_fault_hits; }
void sh_send_budget(int tag, long nbytes)
{
    if (!valid_tag(tag)) return;
    lock();
    g_budget_on[tag] = nbytes >= 0;
    g_budget[tag] = nbytes;
    unlock();
}
long sh_send_budget_left(int tag) { return valid_tag(tag) && g_budget_on[tag] ? g_budget[tag] : -1; }
void sh_fail_next_connect(int tag, int err)
{
    if (valid_tag(tag)) g_connect_fail_errno[tag] = err;
}

static int io_fault(int tag, int dir)
{
    int e = 0;
    if (!valid_tag(tag)) return 0;
    lock();
    if (g_io_fail_n[tag][dir] > 0 && --g_io_fail_n[tag][dir] == 0) {
        e = g_io_fail_errno[tag][dir];
        g_io_fault_hits++;
    }
    unlock();
    return e;
}

void sh_eintr_at(int n) { lock(); g_eintr_at = n; unlock(); }
int sh_blocking_polls(void) { return g_blocking_polls; }

void sh_fail_resource_at2(int n, int skip_eventfd)
{
    lock();
    g_fail_res_at2 = n;
    g_fail_res2_skip_eventfd = skip_eventfd;
    g_res_fault2_hit = 0;
    g_res_fault2_name[0] = 0;
    unlock();
}
int sh_resource_fault2_hit(void) { return g_res_fault2_hit; }
const char *sh_resource_fault2_name(void) { return g_res_fault2_name; }

void sh_fail_resource_at(int n, int err)
{
    lock();
    g_fail_res_at = n;
    g_fail_res_errno = err;
    g_res_fault_hit = 0;
    unlock();
}
int sh_resource_calls(void) { return g_res_calls; }
const char *sh_resource_call_name(int idx)
{
    return idx >= 0 && idx < g_res_calls && idx < MAXRES ? g_res_names[idx] : "?";
}
int sh_resource_fault_hit(void) { return g_res_fault_hit; }

int sh_sleep_violations(void) { return g_sleep_viol; }
const char *sh_sleep_violation_text(void) { return g_sleep_text; }
int sh_foreign_ops(void) { return g_foreign; }
const char *sh_foreign_op_text(void) { return g_foreign_text; }

int sh_lib_fds_open(void)
{
    int n = 0;
    lock();
    for (int fd = 0; fd < MAXFD; fd++) n += fds[fd].used;
    unlock();
    return n;
}

int sh_connect_log_len(void) { return g_connlog_len; }
const char *sh_connect_log(int idx) { return idx >= 0 && idx < g_connlog_len ? g_connlog[idx] : ""; }

int sh_last_sockopt(int tag, int level, int opt, int *value)
{
    int found = 0;
    lock();
    for (int i = 0; i < g_sockopt_len; i++)
        if (g_sockopts[i].tag == tag && g_sockopts[i].level == level && g_sockopts[i].opt == opt) {
            *value = g_sockopts[i].value;
            found = 1;
        }
    unlock();
    return found;
}
uint64_t sh_setsockopt_calls(void) { return g_setsockopt_calls; }

/* ------------------------------------------------------------- interposers */
int socket(int domain, int type, int protocol)
{
    resolve_socket();
    if (t_inside) {
        int inj = resource_call("socket");
        if (inj) { errno = inj; return -1; }
    }
    int fd = real_socket(domain, type, protocol);
    if (fd >= 0 && t_inside) {
        int base = type & 0xf;
        enum fdkind k = K_OTHER;
        if ((domain == AF_INET || domain == AF_INET6) && base == SOCK_STREAM) k = K_TCP;
        else if (domain == AF_UNIX) k = K_UNIX;
        track_new(fd, k);
        if (k == K_TCP) {
            resolve_setsockopt();
            if (g_sndbuf) real_setsockopt(fd, SOL_SOCKET, SO_SNDBUF, &g_sndbuf, sizeof(int));
            if (g_rcvbuf) real_setsockopt(fd, SOL_SOCKET, SO_RCVBUF, &g_rcvbuf, sizeof(int));
        }
    }
    return fd;
}

static int do_accept(int sockfd, struct sockaddr *addr, socklen_t *addrlen, int flags, int is4)
{
    resolve_accept4();
    resolve_accept();
    if (t_inside) {
        if (t_nonblock && is_lib_fd(sockfd) && !fd_nonblocking(sockfd)) {
            sleep_violation("accept on a blocking listening socket", sockfd);
            /* the violation is recorded; do not really hang the harness */
            resolve_poll();
            struct pollfd p = {sockfd, POLLIN, 0};
            if (real_poll(&p, 1, 0) <= 0) { errno = EAGAIN; return -1; }
        }
        int inj = resource_call("accept4");
        if (inj) {
            /* a failed accept on EMFILE etc leaves the connection queued */
            errno = inj;
            return -1;
        }
    }
    int fd = is4 ? real_accept4(sockfd, addr, addrlen, flags) : real_accept(sockfd, addr, addrlen);
    if (fd >= 0 && t_inside) {
        enum fdkind k = is_lib_fd(sockfd) ? fds[sockfd].kind : K_OTHER;
        track_new(fd, k);
        if (fd < MAXFD) fds[fd].connected = 1;
        if (k == K_TCP) {
            resolve_setsockopt();
            if (g_sndbuf) real_setsockopt(fd, SOL_SOCKET, SO_SNDBUF, &g_sndbuf, sizeof(int));
        }
    }
    return fd;
}

int accept4(int sockfd, struct sockaddr *addr, socklen_t *addrlen, int flags)
{
    return do_accept(sockfd, addr, addrlen, flags, 1);
}

int accept(int sockfd, struct sockaddr *addr, socklen_t *addrlen)
{
    return do_accept(sockfd, addr, addrlen, 0, 0);
}

static void log_connect(const struct sockaddr *addr)
{
    char ip[64] = "?";
    int port = 0;
    if (addr->sa_family == AF_INET) {
        const struct sockaddr_in *a = (const struct sockaddr_in *)addr;
        inet_ntop(AF_INET, &a->sin_addr, ip, sizeof(ip));
        port = ntohs(a->sin_port);
    } else if (addr->sa_family == AF_INET6) {
        const struct sockaddr_in6 *a = (const struct sockaddr_in6 *)addr;
        inet_ntop(AF_INET6, &a->sin6_addr, ip, sizeof(ip));
        port = ntohs(a->sin6_port);
    } else
        return;
    lock();
    if (g_connlog_len < MAXCONNLOG)
        snprintf(g_connlog[g_connlog_len++], sizeof(g_connlog[0]), "%s %d", ip, port);
    unlock();
}

int connect(int fd, const struct sockaddr *addr, socklen_t len)
{
    resolve_connect();
    if (t_inside && is_lib_fd(fd)) {
        if (t_nonblock && !fd_nonblocking(fd)) sleep_violation("connect on a blocking socket", fd);
        if (valid_tag(fds[fd].tag)) cnts[fds[fd].tag].connect_calls++;
        log_connect(addr);
        int inj = resource_call("connect");
        if (inj) { errno = inj; return -1; }
        if (addr->sa_family != AF_UNSPEC && fds[fd].kind == K_TCP && valid_tag(fds[fd].tag) && g_connect_fail_errno[fds[fd].tag]) {
            errno = g_connect_fail_errno[fds[fd].tag];
            g_connect_fail_errno[fds[fd].tag] = 0;
            cnts[fds[fd].tag].conn_fail_inj++;
            return -1;
        }
    }
    int rc = real_connect(fd, addr, len);
    if (t_inside && is_lib_fd(fd)) {
        if (rc == 0) fds[fd].connected = 1;
        else if (errno == EINPROGRESS) fds[fd].connecting = 1;
    }
    return rc;
}

int bind(int fd, const struct sockaddr *addr, socklen_t len)
{
    resolve_bind();
    if (t_inside && is_lib_fd(fd)) {
        int inj = resource_call("bind");
        if (inj) { errno = inj; return -1; }
    }
    return real_bind(fd, addr, len);
}

int listen(int fd, int backlog)
{
    resolve_listen();
    if (t_inside && is_lib_fd(fd)) {
        int inj = resource_call("listen");
        if (inj) { errno = inj; return -1; }
    }
    int rc = real_listen(fd, backlog);
    if (rc == 0 && is_lib_fd(fd)) fds[fd].listening = 1;
    return rc;
}

int close(int fd)
{
    resolve_close();
    if (t_inside) {
        if (!is_lib_fd(fd)) foreign_op("close()", fd);
    }
    if (fd >= 0 && fd < MAXFD && fds[fd].used) {
        lock();
        fds[fd].used = 0;
        unlock();
    }
    return real_close(fd);
}

ssize_t send(int fd, const void *buf, size_t len, int flags)
{
    resolve_send();
    if (!t_inside || !is_lib_fd(fd)) return real_send(fd, buf, len, flags);
    int tag = fds[fd].tag;
    struct sh_counters *c = valid_tag(tag) ? &cnts[tag] : NULL;
    if (t_nonblock && !fd_nonblocking(fd) && !(flags & MSG_DONTWAIT)) {
        sleep_violation("send on a blocking socket", fd);
        flags |= MSG_DONTWAIT; /* recorded; do not really hang the harness */
    }
    if (c) c->send_calls++;
    struct directive d;
    size_t n = len;
    {
        int fe = io_fault(tag, SH_SEND);
        if (fe) {
            if (c) c->send_fail_inj++;
            errno = fe;
            return -1;
        }
    }
    if (valid_tag(tag) && g_budget_on[tag] && fds[fd].kind == K_TCP) {
        if (g_budget[tag] <= 0) {
            if (c) c->send_eagain_inj++;
            errno = EAGAIN;
            return -1;
        }
        if ((size_t)g_budget[tag] < n) n = g_budget[tag];
    }
    if (pop(tag, SH_SEND, &d)) {
        switch (d.kind) {
        case SH_EAGAIN:
            if (c) c->send_eagain_inj++;
            errno = EAGAIN;
            return -1;
        case SH_FAIL:
            if (c) c->send_fail_inj++;
            errno = d.arg;
            return -1;
        case SH_PASS:
            /* only a stream socket may take part of a buffer */
            if (fds[fd].kind == K_TCP && d.arg >= 1 && (size_t)d.arg < n) n = d.arg;
            break;
        default: break;
        }
    }
    ssize_t rc = real_send(fd, buf, n, flags);
    if (c) {
        if (rc < 0 && (errno == EAGAIN || errno == EWOULDBLOCK)) c->send_eagain_real++;
        if (rc >= 0) {
            c->send_bytes += rc;
            if ((size_t)rc < len) c->send_short++;
        }
    }
    if (rc > 0 && valid_tag(tag) && g_budget_on[tag] && fds[fd].kind == K_TCP) g_budget[tag] -= rc;
    return rc;
}

ssize_t recv(int fd, void *buf, size_t len, int flags)
{
    resolve_recv();
    if (!t_inside || !is_lib_fd(fd)) return real_recv(fd, buf, len, flags);
    int tag = fds[fd].tag;
    struct sh_counters *c = valid_tag(tag) ? &cnts[tag] : NULL;
    if (t_nonblock && !fd_nonblocking(fd) && !(flags & MSG_DONTWAIT)) {
        sleep_violation("recv on a blocking socket", fd);
        flags |= MSG_DONTWAIT; /* recorded; do not really hang the harness */
    }
    if (c) c->recv_calls++;
    struct directive d;
    size_t n = len;
    {
        int fe = io_fault(tag, SH_RECV);
        if (fe) {
            if (c) c->recv_fail_inj++;
            errno = fe;
            return -1;
        }
    }
    /* do not waste directives on calls for which the kernel has nothing */
    int avail = 1;
    if (fds[fd].kind == K_TCP && ioctl(fd, FIONREAD, &avail) < 0) avail = 1;
    if (avail > 0 && pop(tag, SH_RECV, &d)) {
        switch (d.kind) {
        case SH_EAGAIN:
            if (c) c->recv_eagain_inj++;
            errno = EAGAIN;
            return -1;
        case SH_FAIL:
            if (c) c->recv_fail_inj++;
            errno = d.arg;
            return -1;
        case SH_EOF:
            return 0;
        case SH_PASS:
            if (fds[fd].kind == K_TCP && d.arg >= 1 && (size_t)d.arg < n) n = d.arg;
            break;
        default: break;
        }
    }
    ssize_t rc = real_recv(fd, buf, n, flags);
    if (c) {
        if (rc < 0 && (errno == EAGAIN || errno == EWOULDBLOCK)) c->recv_eagain_real++;
        if (rc > 0) {
            c->recv_bytes += rc;
            if ((size_t)rc < len) c->recv_short++;
            if (len < 4) c->recv_lt4++; /* rest of a split 4-byte header */
        }
    }
    return rc;
}

ssize_t sendmsg(int fd, const struct msghdr *msg, int flags)
{
    resolve_sendmsg();
    if (t_inside && t_nonblock && is_lib_fd(fd) && !fd_nonblocking(fd) && !(flags & MSG_DONTWAIT))
        sleep_violation("sendmsg on a blocking socket", fd);
    return real_sendmsg(fd, msg, flags);
}

ssize_t recvmsg(int fd, struct msghdr *msg, int flags)
{
    resolve_recvmsg();
    if (t_inside && t_nonblock && is_lib_fd(fd) && !fd_nonblocking(fd) && !(flags & MSG_DONTWAIT))
        sleep_violation("recvmsg on a blocking socket", fd);
    return real_recvmsg(fd, msg, flags);
}

int poll(struct pollfd *pfds, nfds_t n, int timeout)
{
    resolve_poll();
    if (t_inside) {
        if (timeout != 0) {
            if (t_nonblock) {
                sleep_violation("poll with non-zero timeout", timeout);
                /* recorded; bound the sleep so that the harness cannot hang */
                if (timeout < 0 || timeout > 200) timeout = 200;
            }
            int inj = 0;
            lock();
            g_blocking_polls++;
            if (g_eintr_at > 0 && --g_eintr_at == 0) inj = 1;
            unlock();
            if (inj) { errno = EINTR; return -1; }
        } else if (n == 1 && (pfds[0].events & POLLOUT) && is_lib_fd(pfds[0].fd) &&
                   fds[pfds[0].fd].kind == K_TCP && fds[pfds[0].fd].connecting &&
                   !fds[pfds[0].fd].connected) {
            /* connection-status probe (ut_established) */
            int fd = pfds[0].fd, tag = fds[fd].tag;
            struct directive d;
            if (pop(tag, SH_CONN, &d)) {
                if (d.kind == SH_DELAY) {
                    if (valid_tag(tag)) cnts[tag].conn_delays++;
                    pfds[0].revents = 0;
                    return 0;
                } else if (d.kind == SH_FAIL) {
                    if (valid_tag(tag)) cnts[tag].conn_fail_inj++;
                    fds[fd].inj_so_error = d.arg;
                    pfds[0].revents = POLLERR | POLLOUT;
                    return 1;
                }
            }
        }
    }
    return real_poll(pfds, n, timeout);
}

int ppoll(struct pollfd *pfds, nfds_t n, const struct timespec *ts, const sigset_t *ss)
{
    resolve_ppoll();
    if (t_inside && t_nonblock && (ts == NULL || ts->tv_sec || ts->tv_nsec))
        sleep_violation("ppoll with non-zero timeout", ts ? ts->tv_sec : -1);
    return real_ppoll(pfds, n, ts, ss);
}

int select(int n, fd_set *r, fd_set *w, fd_set *e, struct timeval *tv)
{
    resolve_select();
    if (t_inside && t_nonblock && (tv == NULL || tv->tv_sec || tv->tv_usec))
        sleep_violation("select with non-zero timeout", tv ? tv->tv_sec : -1);
    return real_select(n, r, w, e, tv);
}

int epoll_wait(int epfd, struct epoll_event *ev, int max, int timeout)
{
    resolve_epoll_wait();
    if (t_inside && t_nonblock && timeout != 0) {
        sleep_violation("epoll_wait with non-zero timeout", timeout);
        if (timeout < 0 || timeout > 200) timeout = 200;
    }
    return real_epoll_wait(epfd, ev, max, timeout);
}

int epoll_pwait(int epfd, struct epoll_event *ev, int max, int timeout, const sigset_t *ss)
{
    resolve_epoll_pwait();
    if (t_inside && t_nonblock && timeout != 0) sleep_violation("epoll_pwait with non-zero timeout", timeout);
    return real_epoll_pwait(epfd, ev, max, timeout, ss);
}

int nanosleep(const struct timespec *req, struct timespec *rem)
{
    resolve_nanosleep();
    if (t_inside && t_nonblock) sleep_violation("nanosleep", req ? req->tv_sec : 0);
    return real_nanosleep(req, rem);
}

int clock_nanosleep(clockid_t c, int fl, const struct timespec *req, struct timespec *rem)
{
    resolve_clock_nanosleep();
    if (t_inside && t_nonblock) sleep_violation("clock_nanosleep", req ? req->tv_sec : 0);
    return real_clock_nanosleep(c, fl, req, rem);
}

int usleep(useconds_t us)
{
    resolve_usleep();
    if (t_inside && t_nonblock) sleep_violation("usleep", us);
    return real_usleep(us);
}

unsigned int sleep(unsigned int s)
{
    resolve_sleep();
    if (t_inside && t_nonblock) sleep_violation("sleep", s);
    return real_sleep(s);
}

int epoll_create1(int flags)
{
    resolve_epoll_create1();
    if (t_inside) {
        int inj = resource_call("epoll_create1");
        if (inj) { errno = inj; return -1; }
    }
    int fd = real_epoll_create1(flags);
    if (fd >= 0 && t_inside) track_new(fd, K_EPOLL);
    return fd;
}

int epoll_ctl(int epfd, int op, int fd, struct epoll_event *ev)
{
    resolve_epoll_ctl();
    if (t_inside) {
        if (!is_lib_fd(epfd)) foreign_op("epoll_ctl() on epoll instance", epfd);
        /* removing an entry from the library's own epoll instance changes nothing about the
         * descriptor named (ux/tcp deinit close the socket first and drop the registration after:
         * EBADF or ENOENT, harmless); adding or re-arming one it does not own would be a stale use */
        else if (!is_lib_fd(fd) && op != EPOLL_CTL_DEL) foreign_op("epoll_ctl() registering", fd);
    }
    return real_epoll_ctl(epfd, op, fd, ev);
}

int eventfd(unsigned int initval, int flags)
{
    resolve_eventfd();
    if (t_inside) {
        int inj = resource_call("eventfd");
        if (inj) { errno = inj; return -1; }
    }
    int fd = real_eventfd(initval, flags);
    if (fd >= 0 && t_inside) track_new(fd, K_EVENTFD);
    return fd;
}

int timerfd_create(int clockid, int flags)
{
    resolve_timerfd_create();
    if (t_inside) {
        int inj = resource_call("timerfd_create");
        if (inj) { errno = inj; return -1; }
    }
    int fd = real_timerfd_create(clockid, flags);
    if (fd >= 0 && t_inside) track_new(fd, K_TIMERFD);
    return fd;
}

int setsockopt(int fd, int level, int opt, const void *val, socklen_t len)
{
    resolve_setsockopt();
    if (t_inside && is_lib_fd(fd)) {
        lock();
        g_setsockopt_calls++;
        if (g_sockopt_len < MAXSOCKOPT && len >= sizeof(int)) {
            struct sockopt_rec *r = &g_sockopts[g_sockopt_len++];
            r->tag = fds[fd].tag;
            r->level = level;
            r->opt = opt;
            memcpy(&r->value, val, sizeof(int));
        }
        unlock();
    }
    if (t_inside && is_lib_fd(fd) && g_user_timeout_override && level == IPPROTO_TCP && opt == TCP_USER_TIMEOUT &&
        len >= sizeof(int)) {
        /* slow-motion histories (1-byte receives, tiny windows) must not trip the 3 s default */
        int v = g_user_timeout_override;
        return real_setsockopt(fd, level, opt, &v, sizeof(v));
    }
    return real_setsockopt(fd, level, opt, val, len);
}

int getsockopt(int fd, int level, int opt, void *val, socklen_t *len)
{
    resolve_getsockopt();
    if (t_inside && is_lib_fd(fd) && level == SOL_SOCKET && opt == SO_ERROR && fds[fd].inj_so_error) {
        int e = fds[fd].inj_so_error;
        fds[fd].inj_so_error = 0;
        if (val && len && *len >= sizeof(int)) {
            memcpy(val, &e, sizeof(int));
            *len = sizeof(int);
        }
        return 0;
    }
    int rc = real_getsockopt(fd, level, opt, val, len);
    if (rc == 0 && t_inside && is_lib_fd(fd) && level == SOL_SOCKET && opt == SO_ERROR &&
        fds[fd].connecting && val && *(int *)val == 0)
        fds[fd].connected = 1;
    return rc;
}

FILE *fopen(const char *path, const char *mode)
{
    resolve_fopen();
    if (t_inside) {
        int inj = resource_call("fopen");
        if (inj) { errno = inj; return NULL; }
    }
    return real_fopen(path, mode);
}
